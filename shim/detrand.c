/* LD_PRELOAD shim: replaces the process's entropy sources by a seeded, per-thread
 * splitmix64 stream so that TLS randoms, connection ids, HashMap seeds and
 * rand::thread_rng are a function of (DETRAND_SEED, thread-local call order).
 * Every execution of a harness runs on a fresh OS thread, so its stream restarts. */
#define _GNU_SOURCE
#include <dlfcn.h>
#include <stdarg.h>
#include <stdint.h>
#include <stdlib.h>
#include <string.h>
#include <sys/syscall.h>
#include <sys/types.h>
#include <unistd.h>

static __thread uint64_t state = 0;
static __thread int inited = 0;
static uint64_t base_seed = 0;
static int base_inited = 0;

static uint64_t splitmix(void) {
    uint64_t z = (state += 0x9E3779B97F4A7C15ULL);
    z = (z ^ (z >> 30)) * 0xBF58476D1CE4E5B9ULL;
    z = (z ^ (z >> 27)) * 0x94D049BB133111EBULL;
    return z ^ (z >> 31);
}
static void fill(void *buf, size_t len) {
    if (!base_inited) { const char *s = getenv("DETRAND_SEED"); base_seed = s ? strtoull(s, 0, 10) : 1; base_inited = 1; }
    if (!inited) { state = base_seed * 0x2545F4914F6CDD1DULL + 0x1234567ULL; inited = 1; }
    unsigned char *p = buf;
    while (len > 0) { uint64_t v = splitmix(); size_t n = len < 8 ? len : 8; memcpy(p, &v, n); p += n; len -= n; }
}
/* The harness calls this (through dlsym) at the start of an execution to restart the
 * calling thread's stream from a given seed. */
void detrand_reset(uint64_t seed) { state = seed * 0x2545F4914F6CDD1DULL + 0x1234567ULL; inited = 1; }
int detrand_present(void) { return 1; }

ssize_t getrandom(void *buf, size_t buflen, unsigned int flags) { (void)flags; fill(buf, buflen); return (ssize_t)buflen; }
int getentropy(void *buf, size_t len) { fill(buf, len); return 0; }
long syscall(long number, ...) {
    static long (*real)(long, ...) = 0;
    va_list ap; va_start(ap, number);
    long a = va_arg(ap, long), b = va_arg(ap, long), c = va_arg(ap, long), d = va_arg(ap, long), e = va_arg(ap, long), f = va_arg(ap, long);
    va_end(ap);
    if (number == SYS_getrandom) { fill((void *)a, (size_t)b); return b; }
    if (!real) real = (long (*)(long, ...))dlsym(RTLD_NEXT, "syscall");
    return real(number, a, b, c, d, e, f);
}
