#!/usr/bin/env python3
"""Regenerate MANIFEST.json from the table below (keeps it valid at all times)."""
import json, os, subprocess
ROOT = os.path.dirname(os.path.dirname(os.path.abspath(__file__)))
props = [json.loads(l) for l in open(os.path.join(ROOT, "properties.jsonl"))]
CHECKS = json.load(open(os.path.join(ROOT, "run", "checks.json")))
hook_commits = subprocess.run(["git", "-C", "/repo", "log", "--format=%H %s"], capture_output=True, text=True).stdout.splitlines()
hook_commits = [l.split()[0] for l in hook_commits if "verif hook" in l]
checks, na = [], []
for p in props:
    c = CHECKS.get(p["id"])
    if not c or c.get("not_applicable"):
        na.append({"property_id": p["id"], "reason": (c or {}).get("not_applicable", "check not built yet (work in progress; design in DESIGN.md section 6)")})
        continue
    checks.append({
        "property_id": p["id"],
        "quick_cmd": f"run/check {p['id']} quick",
        "thorough_cmd": f"run/check {p['id']} thorough",
        "evidence_file": f"/verif/evidence/{p['id']}.json",
        "replay_cmd_template": f"run/check {p['id']} --replay {{path}}",
        "engine": c["engine"],
        "level_claimed": {"category": c["level"], "text": c["text"], "design_ref": c.get("design_ref", "DESIGN.md section 6")},
        "level_note": c["note"],
        "technique": c["technique"],
    })
m = {
    "version": 1,
    "setup_cmd": "run/setup",
    "hooks": {
        "guard": "bmwill_anemo_verif",
        "enable": "RUSTFLAGS='--cfg bmwill_anemo_verif --cfg tokio_unstable' (set in /verif/harness/.cargo/config.toml; own target dir /verif/target)",
        "baseline_off_cmd": "cd /repo && cargo test --workspace --no-fail-fast --offline",
        "source_commits": hook_commits,
        "add_only": True,
    },
    "engines": [
        {"name": "simnet", "path": "harness/vcheck/src/{fabric,world,simrun,explore}.rs", "serves_properties": ["C01","C02","C03","C04","C05","C06","C08","C09","C10","C11","C12","C13","C14","C15"], "kind_free_text": "stateless deviation-bounded exploration of real anemo networks on an in-memory datagram fabric under virtual time"},
        {"name": "seqx", "path": "harness/vcheck/src/checks", "serves_properties": ["C04","C07","C16","C17","C18","C19","C20"], "kind_free_text": "explicit enumeration of operation sequences / inputs against real in-process components with a reference model"},
        {"name": "lockx", "path": "harness/lockx", "serves_properties": ["C04"], "kind_free_text": "loom exploration of thread interleavings of the real ActivePeers registry"},
    ],
    "checks": checks,
    "not_applicable": na,
    "notes": "All checks rebuild anemo from /repo's working tree through path dependencies with the hooks enabled. Known findings: /verif/known_findings.json.",
}
json.dump(m, open(os.path.join(ROOT, "MANIFEST.json"), "w"), indent=1)
print(len(checks), "checks,", len(na), "not applicable")
