//! Histories of dials, disconnects, partitions and restarts among three real networks, explored
//! exhaustively up to a depth. Shared by C04 (event streams are an exact change log) and C09
//! (views are eventually mutual, disconnects propagate).

use crate::report::UnitResult;
use crate::simrun::{explore_sim, sim_exec, Judged};
use crate::world::*;
use crate::Tier;
use anemo::types::{DisconnectReason, PeerEvent};
use anemo::{Network, PeerId};
use futures::FutureExt;
use serde_json::{json, Value};
use std::collections::BTreeSet;
use std::sync::Arc;
use tokio::sync::broadcast;

pub const N: usize = 3;
pub const IDLE_MS: u64 = 3_000;
const KEEPALIVE_MS: u64 = 1_000;
/// A side that hears nothing reports the loss within the idle timeout after its last packet
/// exchange; a keep-alive it sends itself in the meantime restarts that timer once (RFC 9000
/// 10.1), so the observable bound from the start of a black hole is idle + keep-alive (+ 1 s slack).
pub const LOSS_MS: u64 = IDLE_MS + KEEPALIVE_MS + 1_000;

#[derive(Clone, Copy, Debug, PartialEq, Eq)]
pub enum HOp {
    Dial(usize, usize),
    Disconnect(usize, usize),
    /// black-hole the link between two nodes for 1 s (short) or idle timeout + 1 s (long), then heal
    Cut(usize, usize, bool),
    /// black-hole only one direction (a -> b) for 2 x idle timeout + 1 s, then heal
    CutOneWay(usize, usize),
    Restart(usize),
    /// black-hole the link, then a disconnects b (its close frame is lost), wait idle timeout + 1 s, heal
    CutDisconnect(usize, usize),
    /// a starts an RPC to b whose handler stays busy until `Release` (not awaited)
    SlowRpc(usize, usize),
    /// let every busy handler finish
    Release,
    /// a sends b a request whose application handler panics (a bug in b's application)
    PanicRpc(usize, usize),
    /// a dials b and ends the connection the moment its dial has completed (a short-lived client)
    DialDrop(usize, usize),
}

pub fn all_ops() -> Vec<HOp> {
    let mut v = vec![];
    for i in 0..N {
        for j in 0..N {
            if i != j {
                v.push(HOp::Dial(i, j));
            }
        }
    }
    for i in 0..N {
        for j in 0..N {
            if i != j {
                v.push(HOp::Disconnect(i, j));
            }
        }
    }
    for i in 0..N {
        for j in (i + 1)..N {
            v.push(HOp::Cut(i, j, false));
            v.push(HOp::Cut(i, j, true));
        }
    }
    for (i, j) in [(0, 1), (1, 0), (1, 2)] {
        v.push(HOp::CutOneWay(i, j));
    }
    for i in 0..N {
        v.push(HOp::Restart(i));
    }
    for (i, j) in [(0, 1), (2, 1)] {
        v.push(HOp::CutDisconnect(i, j));
    }
    v
}

/// the alphabet of C09: plus requests whose application handler panics
pub fn all_ops_for(which: &str) -> Vec<HOp> {
    let mut v = all_ops();
    if which == "C09" {
        for (i, j) in [(0, 1), (1, 2)] {
            v.push(HOp::PanicRpc(i, j));
        }
        for (i, j) in [(0, 1), (2, 1)] {
            v.push(HOp::DialDrop(i, j));
        }
    }
    v
}

/// the extended alphabet: plus slow RPCs (services limited to one request at a time)
pub fn all_ops_busy() -> Vec<HOp> {
    let mut v = all_ops();
    for (i, j) in [(0, 1), (2, 1), (1, 0), (1, 2)] {
        v.push(HOp::SlowRpc(i, j));
    }
    v.push(HOp::Release);
    v
}

pub fn op_json(o: &HOp) -> Value {
    match *o {
        HOp::Dial(i, j) => json!(["dial", i, j]),
        HOp::Disconnect(i, j) => json!(["disconnect", i, j]),
        HOp::Cut(i, j, long) => json!([if long { "cut_long" } else { "cut_short" }, i, j]),
        HOp::CutOneWay(i, j) => json!(["cut_oneway", i, j]),
        HOp::Restart(i) => json!(["restart", i, i]),
        HOp::CutDisconnect(i, j) => json!(["cut_disconnect", i, j]),
        HOp::SlowRpc(i, j) => json!(["slow_rpc", i, j]),
        HOp::Release => json!(["release", 0, 0]),
        HOp::PanicRpc(i, j) => json!(["panic_rpc", i, j]),
        HOp::DialDrop(i, j) => json!(["dial_and_drop", i, j]),
    }
}

pub fn parse_op(v: &Value) -> HOp {
    let (i, j) = (v[1].as_u64().unwrap() as usize, v[2].as_u64().unwrap() as usize);
    match v[0].as_str().unwrap() {
        "dial" => HOp::Dial(i, j),
        "disconnect" => HOp::Disconnect(i, j),
        "cut_long" => HOp::Cut(i, j, true),
        "cut_short" => HOp::Cut(i, j, false),
        "cut_oneway" => HOp::CutOneWay(i, j),
        "cut_disconnect" => HOp::CutDisconnect(i, j),
        "slow_rpc" => HOp::SlowRpc(i, j),
        "release" => HOp::Release,
        "panic_rpc" => HOp::PanicRpc(i, j),
        "dial_and_drop" => HOp::DialDrop(i, j),
        _ => HOp::Restart(i),
    }
}

fn config() -> anemo::Config {
    let mut c = anemo::Config::default();
    let mut q = anemo::QuicConfig::default();
    q.max_idle_timeout_ms = Some(IDLE_MS);
    q.keep_alive_interval_ms = Some(KEEPALIVE_MS);
    c.quic = Some(q);
    c.shutdown_idle_timeout_ms = Some(500);
    c
}

struct Sub {
    node: usize,
    rx: broadcast::Receiver<PeerEvent>,
    replica: BTreeSet<PeerId>,
    taken_at: usize,
    closed: bool,
}

#[derive(Clone, Debug, Default)]
pub struct Obs {
    pub log: Vec<String>,
    pub violations: Vec<(String, String)>,
    pub shape: String,
}

/// keys such that node 0 < node 1 < node 2 in PeerId order, permuted by `perm`
fn keys(perm: usize) -> [u8; 3] {
    let mut k: Vec<u8> = vec![1, 2, 3];
    k.sort_by_key(|x| peer_id_of_key(*x));
    let p = crate::explore::permutations(3)[perm].clone();
    [k[p[0]], k[p[1]], k[p[2]]]
}

async fn scenario(sim: Arc<Sim>, unit: Value, which: &'static str) -> Obs {
    let mut o = Obs::default();
    let ops: Vec<HOp> = unit["ops"].as_array().unwrap().iter().map(parse_op).collect();
    let long_settle = unit["settle"] == "long";
    let ks = keys(unit["perm"].as_u64().unwrap_or(0) as usize);
    let mut nets: Vec<Network> = vec![];
    let mut node_idx: Vec<usize> = vec![];
    let busy = unit["busy"].as_bool().unwrap_or(false);
    let start = |sim: &Sim, k: u8| {
        if busy {
            // the user service admits one request at a time (its poll_ready can be pending)
            sim.start_limited(&NodeSpec::new(k).config(config()), 1).unwrap()
        } else {
            sim.start(&NodeSpec::new(k).config(config())).unwrap()
        }
    };
    let mut slow_n = 0usize;
    for k in ks {
        let n = start(&sim, k);
        node_idx.push(sim.node_of(&n));
        nets.push(n);
    }
    let ids: Vec<PeerId> = nets.iter().map(|n| n.peer_id()).collect();
    {
        let mut l = sim.labels.lock().unwrap();
        for (i, id) in ids.iter().enumerate() {
            l.insert(*id, format!("n{i}"));
        }
    }
    if busy {
        for (i, j) in [(0usize, 1usize), (2, 1), (0, 2)] {
            if let Err(e) = nets[i].connect(nets[j].local_addr()).await {
                o.violations.push(("setup".into(), format!("pre-connecting n{i}->n{j} failed: {e}")));
            }
        }
        tokio::time::sleep(ms(100)).await;
    }
    let mut subs: Vec<Sub> = vec![];
    let c04 = which == "C04";
    let c09 = which == "C09";

    macro_rules! viol {
        ($k:expr, $($arg:tt)*) => { o.violations.push(($k.to_string(), format!($($arg)*))) };
    }

    // Links that went through a short outage earlier in the history: the delayed acknowledgements
    // inflate QUIC's RTT estimate, and the idle period is max(idle timeout, 3 x PTO)
    // (RFC 9000 section 10.1), so a later loss on such a link may be noticed up to ~3 s later.
    let mut disturbed: BTreeSet<(usize, usize)> = BTreeSet::new();
    let link = |a: usize, b: usize| (a.min(b), a.max(b));
    const PTO_ALLOWANCE_MS: u64 = 3_000;
    for (step, op) in ops.iter().enumerate() {
        // a subscription on every node before every step
        for (i, n) in nets.iter().enumerate() {
            if let Ok((rx, snap)) = n.subscribe() {
                let set: BTreeSet<PeerId> = snap.iter().copied().collect();
                if set.len() != snap.len() {
                    viol!("duplicate-listing", "step {step}: snapshot on n{i} has duplicates");
                }
                subs.push(Sub { node: i, rx, replica: set, taken_at: step, closed: false });
            }
        }
        match *op {
            HOp::Dial(i, j) => {
                let r = nets[i].connect(nets[j].local_addr()).await;
                match &r {
                    Ok(p) => {
                        if *p != ids[j] {
                            viol!("dial-identity", "step {step}: n{i} dialed n{j} and was told it reached {}", sim.label(p));
                        }
                        o.shape.push('D');
                    }
                    Err(_) => o.shape.push('d'),
                }
                o.log.push(format!("step {step}: dial n{i}->n{j}: {:?}", r.as_ref().map(|_| ()).map_err(|e| e.to_string())));
            }
            HOp::Disconnect(i, j) => {
                let was = nets[i].peers().contains(&ids[j]);
                let r = nets[i].disconnect(ids[j]);
                // effects must be visible before the call returns
                if nets[i].peers().contains(&ids[j]) {
                    viol!("disconnect-not-immediate", "step {step}: n{i}.disconnect(n{j}) returned but n{j} is still listed");
                }
                if c09 && was {
                    // LostPeer(j, Requested) already queued on a subscription of n{i} taken before
                    if let Some(s) = subs.iter_mut().rev().find(|s| s.node == i) {
                        let mut found = false;
                        let mut pending = vec![];
                        while let Ok(e) = s.rx.try_recv() {
                            if e == PeerEvent::LostPeer(ids[j], DisconnectReason::Requested) {
                                found = true;
                            }
                            pending.push(e);
                        }
                        // put back into the replica bookkeeping
                        for e in pending {
                            apply(&mut s.replica, &e);
                        }
                        if !found {
                            viol!("disconnect-no-event", "step {step}: n{i}.disconnect(n{j}) returned without a LostPeer(n{j}, Requested) event being queued");
                        }
                    }
                    // RPCs to it fail until a new connection is established
                    let r = tokio::time::timeout(ms(200), nets[i].rpc(ids[j], Sim::request("after-disconnect"))).await;
                    if matches!(r, Ok(Ok(_))) && !nets[i].peers().contains(&ids[j]) {
                        viol!("rpc-after-disconnect", "step {step}: an RPC from n{i} to n{j} succeeded after disconnect without a new connection being announced");
                    }
                }
                o.shape.push(if was { 'X' } else { 'x' });
                o.log.push(format!("step {step}: disconnect n{i}-/->n{j}: was listed={was} {:?}", r.map_err(|e| e.to_string())));
            }
            HOp::Cut(i, j, long) => {
                sim.fabric.set_link_both(node_idx[i], node_idx[j], false);
                let allowance = if disturbed.contains(&link(i, j)) { PTO_ALLOWANCE_MS } else { 0 };
                tokio::time::sleep(ms(if long { LOSS_MS + allowance } else { 1_000 })).await;
                if !long {
                    disturbed.insert(link(i, j));
                }
                if long && (nets[i].peers().contains(&ids[j]) || nets[j].peers().contains(&ids[i])) {
                    viol!("loss-not-reported", "step {step}: the link n{i}<->n{j} has been dead for more than the idle timeout but n{i} lists n{j}: {}, n{j} lists n{i}: {}", nets[i].peers().contains(&ids[j]), nets[j].peers().contains(&ids[i]));
                    // for the replay log: how much later is the loss noticed (link still dead)?
                    let mut extra = 0u64;
                    while extra < 30_000 && (nets[i].peers().contains(&ids[j]) || nets[j].peers().contains(&ids[i])) {
                        tokio::time::sleep(ms(250)).await;
                        extra += 250;
                    }
                    o.log.push(format!("step {step}: (diagnosis) the loss was noticed by both sides {extra} ms after the bound of {LOSS_MS} ms"));
                }
                sim.fabric.set_link_both(node_idx[i], node_idx[j], true);
                o.shape.push(if long { 'C' } else { 'c' });
                o.log.push(format!("step {step}: cut n{i}<->n{j} long={long}"));
            }
            HOp::CutOneWay(i, j) => {
                sim.fabric.set_link(node_idx[i], node_idx[j], false);
                // n{j} hears nothing and gives up after the idle timeout (silently); n{i} still hears
                // n{j} until then, so it may take one more idle timeout to report the loss
                tokio::time::sleep(ms(2 * LOSS_MS + if disturbed.contains(&link(i, j)) { 2 * PTO_ALLOWANCE_MS } else { 0 })).await;
                if nets[i].peers().contains(&ids[j]) || nets[j].peers().contains(&ids[i]) {
                    viol!("loss-not-reported", "step {step}: n{i}->n{j} has been black-holed for more than the idle timeout but n{i} lists n{j}: {}, n{j} lists n{i}: {}", nets[i].peers().contains(&ids[j]), nets[j].peers().contains(&ids[i]));
                }
                sim.fabric.set_link(node_idx[i], node_idx[j], true);
                o.shape.push('o');
                o.log.push(format!("step {step}: cut n{i}->n{j} one way"));
            }
            HOp::CutDisconnect(i, j) => {
                sim.fabric.set_link_both(node_idx[i], node_idx[j], false);
                let was = nets[j].peers().contains(&ids[i]);
                let _ = nets[i].disconnect(ids[j]);
                tokio::time::sleep(ms(LOSS_MS + if disturbed.contains(&link(i, j)) { PTO_ALLOWANCE_MS } else { 0 })).await;
                if nets[j].peers().contains(&ids[i]) {
                    viol!("loss-not-reported", "step {step}: n{i} disconnected n{j} during a partition; more than the idle timeout later n{j} still lists n{i}");
                }
                sim.fabric.set_link_both(node_idx[i], node_idx[j], true);
                o.shape.push(if was { 'Q' } else { 'q' });
                o.log.push(format!("step {step}: cut n{i}<->n{j}, n{i} disconnects n{j}, wait, heal"));
            }
            HOp::SlowRpc(i, j) => {
                slow_n += 1;
                let (n, to, id) = (nets[i].clone(), ids[j], format!("slow{slow_n}"));
                tokio::spawn(async move {
                    let _ = n.rpc(to, Sim::request(&id).with_header("gate", "slow")).await;
                });
                tokio::time::sleep(ms(30)).await;
                o.shape.push('s');
                o.log.push(format!("step {step}: n{i} starts a slow rpc to n{j}"));
            }
            HOp::DialDrop(i, j) => {
                let r = nets[i].connect(nets[j].local_addr()).await;
                if r.is_ok() {
                    let _ = nets[i].disconnect(ids[j]);
                }
                o.shape.push('Q');
                o.log.push(format!("step {step}: n{i} dials n{j} and disconnects at once: {:?}", r.as_ref().map(|_| ()).map_err(|e| e.to_string())));
            }
            HOp::PanicRpc(i, j) => {
                let connected = nets[i].peers().contains(&ids[j]);
                let r = tokio::time::timeout(ms(2_000), nets[i].rpc(ids[j], Sim::request("boom").with_header("panic", "1"))).await;
                if matches!(r, Ok(Ok(_))) {
                    viol!("setup", "step {step}: the panicking handler answered");
                }
                o.shape.push(if connected { 'P' } else { 'p' });
                o.log.push(format!("step {step}: n{i} sends n{j} a request whose handler panics (connected: {connected})"));
            }
            HOp::Release => {
                sim.svc.release("slow");
                sim.svc.rearm("slow");
                o.shape.push('e');
                o.log.push(format!("step {step}: busy handlers released"));
            }
            HOp::Restart(i) => {
                let old = nets[i].clone();
                let r = tokio::time::timeout(ms(5_000), old.shutdown()).await;
                if r.is_err() {
                    viol!("shutdown-hangs", "step {step}: shutdown of n{i} did not complete within 5 s");
                }
                let n = start(&sim, ks[i]);
                node_idx[i] = sim.node_of(&n);
                nets[i] = n;
                sim.labels.lock().unwrap().insert(ids[i], format!("n{i}"));
                o.shape.push('R');
                o.log.push(format!("step {step}: restart n{i}"));
            }
        }
        // settle without faults
        tokio::time::sleep(ms(if long_settle { IDLE_MS + 1_000 } else { 60 })).await;
        check_streams(&sim, &nets, &ids, &mut subs, step, c04, &mut o);
        if c09 && long_settle && !busy {
            check_mutual(&sim, &nets, &ids, step, &mut o).await;
        }
        if c09 && long_settle && busy {
            check_views_only(&nets, &ids, step, &mut o);
        }
    }
    // final: more than the idle timeout of fault-free connectivity, nobody busy any more
    sim.svc.release("slow");
    tokio::time::sleep(ms(IDLE_MS + 1_000)).await;
    check_streams(&sim, &nets, &ids, &mut subs, ops.len(), c04, &mut o);
    check_mutual(&sim, &nets, &ids, ops.len(), &mut o).await;
    if c04 {
        let (bad, _calls) = check_registry_traces(&sim);
        o.violations.extend(bad);
    }
    let listing: Vec<String> = nets.iter().map(|n| format!("{}", n.peers().len())).collect();
    o.shape.push_str(&format!("|{}", listing.join("")));
    o
}

fn apply(replica: &mut BTreeSet<PeerId>, e: &PeerEvent) -> bool {
    match e {
        PeerEvent::NewPeer(p) => replica.insert(*p),
        PeerEvent::LostPeer(p, _) => replica.remove(p),
    }
}

fn check_streams(sim: &Sim, nets: &[Network], ids: &[PeerId], subs: &mut [Sub], step: usize, strict: bool, o: &mut Obs) {
    for (i, n) in nets.iter().enumerate() {
        let listed = n.peers();
        let set: BTreeSet<PeerId> = listed.iter().copied().collect();
        if set.len() != listed.len() {
            o.violations.push(("duplicate-listing".into(), format!("after step {step}: n{i}.peers() has duplicates")));
        }
        if set.contains(&ids[i]) {
            o.violations.push(("lists-itself".into(), format!("after step {step}: n{i} lists itself")));
        }
        for s in subs.iter_mut().filter(|s| s.node == i && !s.closed) {
            loop {
                match s.rx.try_recv() {
                    Ok(e) => {
                        if !apply(&mut s.replica, &e) {
                            o.violations.push(("event-alternation".into(), format!("after step {step}: subscriber on n{i} (taken at step {}) got {} out of turn", s.taken_at, event_str(sim, &e))));
                        }
                    }
                    Err(broadcast::error::TryRecvError::Empty) => break,
                    Err(broadcast::error::TryRecvError::Closed) => {
                        s.closed = true;
                        break;
                    }
                    Err(broadcast::error::TryRecvError::Lagged(k)) => {
                        o.violations.push(("setup".into(), format!("subscriber lagged by {k}")));
                        s.closed = true;
                        break;
                    }
                }
            }
            // subscriptions of a network that has been restarted belong to the old instance
            if s.closed {
                continue;
            }
            if strict && s.replica != set {
                o.violations.push(("event-log".into(), format!("after step {step}: on n{i}, snapshot taken at step {} + events gives {:?} but peers() is {:?}", s.taken_at, s.replica.iter().map(|p| sim.label(p)).collect::<Vec<_>>(), set.iter().map(|p| sim.label(p)).collect::<Vec<_>>())));
                s.closed = true; // report once
            }
        }
    }
}

async fn check_mutual(sim: &Sim, nets: &[Network], ids: &[PeerId], step: usize, o: &mut Obs) {
    for i in 0..N {
        for j in 0..N {
            if i == j {
                continue;
            }
            let ij = nets[i].peers().contains(&ids[j]);
            let ji = nets[j].peers().contains(&ids[i]);
            if ij && !ji {
                o.violations.push(("views-not-mutual".into(), format!("after step {step} and more than the idle timeout of fault-free connectivity: n{i} lists n{j} but n{j} does not list n{i}")));
            }
            if ij {
                let id = format!("probe-{step}-{i}-{j}");
                let spec = RpcSpec::new(&id).route("/probe").body(pattern_body(1, 8));
                match tokio::time::timeout(ms(2_000), do_rpc(sim, &nets[i], ids[j], &spec)).await {
                    Ok(r) => match r.result {
                        Ok(ok) => {
                            if let Err(e) = check_response(&spec, &ok, ids[j]) {
                                o.violations.push(("listed-but-unreachable".into(), e));
                            }
                        }
                        Err(e) => o.violations.push(("listed-but-unreachable".into(), format!("after step {step}: n{i} lists n{j} but an RPC fails: {e}"))),
                    },
                    Err(_) => o.violations.push(("listed-but-unreachable".into(), format!("after step {step}: n{i} lists n{j} but an RPC does not complete in 2 s"))),
                }
            }
        }
    }
}

/// listings only (no RPC probes: services may be legitimately busy)
fn check_views_only(nets: &[Network], ids: &[PeerId], step: usize, o: &mut Obs) {
    for i in 0..N {
        for j in 0..N {
            if i != j && nets[i].peers().contains(&ids[j]) && !nets[j].peers().contains(&ids[i]) {
                o.violations.push(("views-not-mutual".into(), format!("after step {step} and more than the idle timeout of fault-free connectivity: n{i} lists n{j} but n{j} does not list n{i}")));
            }
        }
    }
}

fn judge(o: &Obs) -> Judged {
    Judged { class: format!("hist:{}", o.shape), violations: o.violations.clone(), sample: Some(json!(o.log)) }
}

pub fn units(tier: Tier, which: &str) -> Vec<Value> {
    let ops = all_ops_for(which);
    let mut u = vec![];
    let settle = if which == "C09" { "long" } else { "short" };
    // every history of length 1 and 2; length 3 in full for thorough (split by first two ops),
    // for quick only those starting with a dial
    let mut seqs: Vec<Vec<HOp>> = vec![];
    for a in &ops {
        seqs.push(vec![*a]);
        for b in &ops {
            seqs.push(vec![*a, *b]);
        }
    }
    for s in &seqs {
        u.push(json!({"kind":"history","ops":s.iter().map(op_json).collect::<Vec<_>>(),"settle":settle,"perm":0,"expand":0}));
    }
    // permuted identities on the length-2 histories that start with a dial
    for perm in 1..6 {
        for s in seqs.iter().filter(|s| s.len() == 2 && matches!(s[0], HOp::Dial(..))) {
            if tier == Tier::Quick && perm != 5 {
                continue;
            }
            u.push(json!({"kind":"history","ops":s.iter().map(op_json).collect::<Vec<_>>(),"settle":settle,"perm":perm,"expand":0}));
        }
    }
    for s in seqs.iter().filter(|s| s.len() == 2) {
        // depth 3 in full (quick), depth 4 in full (thorough): expanded inside the unit
        u.push(json!({"kind":"history","ops":s.iter().map(op_json).collect::<Vec<_>>(),"settle":settle,"perm":0,"expand":tier.pick(1, 2)}));
    }
    // services that admit one request at a time, with slow RPCs keeping them busy: every history
    // over the extended alphabet that starts with a dial and contains a slow RPC
    // (starting from a connected triangle 0-1, 2-1, 0-2: a non-initial state)
    let busy_ops = all_ops_busy();
    for a in &busy_ops {
        for b in &busy_ops {
            u.push(json!({"kind":"history","ops":[op_json(a), op_json(b)],"settle":settle,"perm":0,"expand":tier.pick(1, 2),"busy":true}));
        }
    }
    u
}

pub fn run_unit(_tier: Tier, unit: &Value, out: &mut UnitResult, which: &'static str) {
    let base: Vec<HOp> = unit["ops"].as_array().unwrap().iter().map(parse_op).collect();
    let expand = unit["expand"].as_u64().unwrap_or(0) as usize;
    let mut seqs: Vec<Vec<HOp>> = vec![base.clone()];
    let busy = unit["busy"].as_bool().unwrap_or(false);
    for _ in 0..expand {
        let mut next = vec![];
        for s in &seqs {
            for op in if busy { all_ops_busy() } else { all_ops_for(which) } {
                let mut n = s.clone();
                n.push(op);
                next.push(n);
            }
        }
        seqs = next;
    }
    for s in seqs {
        // the dial-and-drop operation is explored in histories of up to three operations (both tiers)
        // (a four-operation history that contains it is cut back to its first three operations,
        // run once per such prefix)
        let mut s = s;
        if s.len() > 3 && s.iter().any(|o| matches!(o, HOp::DialDrop(..))) {
            let first = all_ops_for(which)[0];
            if s[3] != first || !s[..3].iter().any(|o| matches!(o, HOp::DialDrop(..))) {
                continue;
            }
            s.truncate(3);
        }
        // (histories without a slow RPC are kept too: this variant starts from a connected triangle,
        // a non-initial state, which the plain variant only reaches after three dials)
        let mut u = unit.clone();
        u["ops"] = json!(s.iter().map(op_json).collect::<Vec<_>>());
        u["expand"] = json!(0);
        let u2 = u.clone();
        let before = out.evaluations;
        explore_sim(out, crate::seed(), &u, 2_000, 0, 1, true, move |sim| scenario(sim, u2.clone(), which).boxed(), |o: &Obs, _p, _c| judge(o));
        out.states += out.evaluations - before;
        out.transitions += s.len() as u64;
        out.traces_validated += 1;
    }
}

pub fn replay(replay: &Value, which: &'static str) -> String {
    let unit = replay["unit"].clone();
    let seed = replay["seed"].as_u64().unwrap_or(1);
    let u = unit.clone();
    let o = sim_exec(seed, &[], 2_000, move |sim| scenario(sim, u, which).boxed());
    match o.run {
        Some(r) => format!("unit {unit}\n{}\nshape {}\nviolations {:#?}\npanics {:?}", r.obs.log.join("\n"), r.obs.shape, r.obs.violations, o.panics),
        None => format!("execution hung={} panics={:?}", o.hung, o.panics),
    }
}
