//! Ad-hoc probes against real sockets and real time (not part of any check).
use crate::adversary::*;
use std::sync::Arc;

pub fn wrong_name_listener() {
    let rt = tokio::runtime::Builder::new_multi_thread().worker_threads(2).enable_all().build().unwrap();
    rt.block_on(async {
        let id = Identity::honest(7, "n2");
        let (cfg, seen) = server_config(&id);
        let sock = std::net::UdpSocket::bind("127.0.0.1:0").unwrap();
        let addr = sock.local_addr().unwrap();
        let ep = quinn::Endpoint::new(quinn::EndpointConfig::default(), Some(cfg), sock, Arc::new(quinn::TokioRuntime)).unwrap();
        let ep2 = ep.clone();
        tokio::spawn(async move {
            while let Some(inc) = ep2.accept().await {
                let r = inc.await;
                eprintln!("adversary accept: {:?}", r.as_ref().map(|_| ()).map_err(|e| e.to_string()));
            }
        });
        let svc = crate::world::HarnessSvc::new(0, Arc::new(Default::default()));
        let net = anemo::Network::bind("127.0.0.1:0").private_key([1u8; 32]).server_name("n1").start(svc).unwrap();
        let t = std::time::Instant::now();
        let r = tokio::time::timeout(std::time::Duration::from_secs(5), net.connect(addr)).await;
        eprintln!("connect -> {:?} after {:?}", r.map(|r| r.map_err(|e| e.to_string())), t.elapsed());
        tokio::time::sleep(std::time::Duration::from_secs(1)).await;
        eprintln!("sni seen: {:?}", seen.seen_sni.lock().unwrap());
    });
}

pub fn governor_burst() {
    use governor::{Quota, RateLimiter};
    use std::num::NonZeroU32;
    for b in [1u32, 3] {
        let q = Quota::with_period(std::time::Duration::from_millis(40)).unwrap().allow_burst(NonZeroU32::new(b).unwrap());
        let l = RateLimiter::keyed(q);
        let fresh = (0..10).filter(|_| l.check_key(&1u8).is_ok()).count();
        std::thread::sleep(std::time::Duration::from_millis(40 * (b as u64 + 2)));
        let after_idle = (0..10).filter(|_| l.check_key(&1u8).is_ok()).count();
        eprintln!("burst {b}: fresh key admits {fresh} at once; after a long idle period {after_idle} at once");
    }
}


/// What does a panicking application handler do to the serving network and to its peers?
pub fn handler_panic() {
    use crate::simrun::sim_exec;
    use crate::world::*;
    use futures::FutureExt;
    let o = sim_exec(1, &[], 200, move |sim| {
        async move {
            let a = sim.start(&NodeSpec::new(1)).unwrap();
            let b = sim.start(&NodeSpec::new(2)).unwrap();
            let c = sim.start(&NodeSpec::new(3)).unwrap();
            a.connect(b.local_addr()).await.unwrap();
            c.connect(b.local_addr()).await.unwrap();
            let r = a.rpc(b.peer_id(), Sim::request("p").with_header("panic", "1")).await;
            let mut log = vec![format!("rpc result: {:?}", r.map(|x| x.status()).map_err(|e| e.to_string()))];
            tokio::time::sleep(std::time::Duration::from_secs(40)).await;
            log.push(format!("after 40 s: b.is_closed={} b.peers={} a.peers={} c.peers={}", b.is_closed(), b.peers().len(), a.peers().len(), c.peers().len()));
            let r2 = c.rpc(b.peer_id(), Sim::request("q")).await;
            log.push(format!("c->b rpc: {:?}", r2.map(|x| x.status()).map_err(|e| e.to_string())));
            let r3 = b.rpc(a.peer_id(), Sim::request("q")).await;
            log.push(format!("b->a rpc: {:?}", r3.map(|x| x.status()).map_err(|e| e.to_string())));
            log
        }
        .boxed()
    });
    println!("hung={} panics={:?}", o.hung, o.panics.iter().map(|p| (&p.message, &p.location)).collect::<Vec<_>>());
    if let Some(r) = o.run {
        for l in r.obs {
            println!("{l}");
        }
    }
}
