//! vcheck: bounded-exhaustive exploration of the real anemo code.
//!
//!   vcheck <ID> quick|thorough        run a check (parent: spawns worker processes)
//!   vcheck <ID> --replay <file>       re-run one recorded execution and print what it observed
//!   vcheck --worker <ID> <tier>       (internal)

pub mod adversary;
pub mod certs;
pub mod checks;
pub mod exec;
pub mod explore;
pub mod fabric;
pub mod histories;
pub mod pool;
pub mod probe;
pub mod report;
pub mod simrun;
pub mod world;

use report::{CheckMeta, UnitResult};
use serde_json::{Map, Value};

#[derive(Clone, Copy, Debug, PartialEq, Eq)]
pub enum Tier {
    Quick,
    Thorough,
}

impl Tier {
    pub fn as_str(self) -> &'static str {
        match self {
            Tier::Quick => "quick",
            Tier::Thorough => "thorough",
        }
    }
    pub fn parse(s: &str) -> Option<Tier> {
        match s {
            "quick" => Some(Tier::Quick),
            "thorough" => Some(Tier::Thorough),
            _ => None,
        }
    }
    pub fn pick<T>(self, quick: T, thorough: T) -> T {
        match self {
            Tier::Quick => quick,
            Tier::Thorough => thorough,
        }
    }
}

pub fn seed() -> u64 {
    std::env::var("VERIF_SEED")
        .ok()
        .and_then(|s| s.parse::<u64>().ok())
        .unwrap_or(1)
}

pub trait Check: Sync + Send {
    fn meta(&self, tier: Tier) -> CheckMeta;
    /// Work units; each is explored completely by one worker.
    fn units(&self, tier: Tier) -> Vec<Value>;
    fn run_unit(&self, tier: Tier, unit: &Value, out: &mut UnitResult);
    /// Re-run the single execution described by a violation's `replay` value; return a log.
    fn replay(&self, replay: &Value) -> String;
    /// Oracles over the merged result (vacuity guards etc.) and extra evidence keys.
    fn finish(&self, _tier: Tier, _total: &mut UnitResult) -> Map<String, Value> {
        Map::new()
    }
}

fn main() {
    let args: Vec<String> = std::env::args().skip(1).collect();
    if args.is_empty() {
        eprintln!("usage: vcheck <ID> quick|thorough | vcheck <ID> --replay <file>");
        std::process::exit(2);
    }
    // anyhow would otherwise capture (and symbolise) a backtrace for every error the subject creates
    std::env::set_var("RUST_LIB_BACKTRACE", "0");
    std::env::set_var("RUST_BACKTRACE", "0");
    if let Ok(f) = std::env::var("VERIF_TRACE") {
        let _ = tracing_subscriber::fmt().with_env_filter(f).with_writer(std::io::stderr).without_time().try_init();
    }
    exec::install_panic_hook();
    if args[0] == "--probe-determinism" {
        // run the default execution of one C05 unit several times in this process and print the
        // hash of everything observed: all lines must be equal, within and across processes
        let unit: Value = serde_json::from_str(&args[1]).unwrap();
        for i in 0..4 {
            let u = unit.clone();
            let o = simrun::sim_exec(seed(), &[], 5_000, move |sim| {
                use futures::FutureExt;
                async move {
                    let obs = checks::c05::scenario_pub(sim.clone(), u).await;
                    let h = sim.chooser.lock().unwrap().obs_hash;
                    (obs, h)
                }
                .boxed()
            });
            let r = o.run.unwrap();
            println!("run {i}: obs_hash {:016x} datagrams {} points {}", r.obs.1, r.datagrams, r.trace.len());
        }
        return;
    }
    if args[0] == "--c07-configs" {
        // one fresh process: the wire codecs used under two configurations, in the given order
        checks::c07::configs_in_fresh_process(&args[1]);
        return;
    }
    if args[0] == "--probe-handler-panic" {
        probe::handler_panic();
        return;
    }
    if args[0] == "--probe-governor" {
        probe::governor_burst();
        return;
    }
    if args[0] == "--probe-wrongname" {
        probe::wrong_name_listener();
        return;
    }
    if args[0] == "--worker" {
        let check = checks::get(&args[1]).expect("unknown check");
        let tier = Tier::parse(&args[2]).expect("tier");
        pool::worker_main(check.as_ref(), tier);
        return;
    }
    let id = args[0].clone();
    let Some(check) = checks::get(&id) else {
        println!("MACHINERY-ERROR: unknown check {id}");
        std::process::exit(2);
    };
    if args.get(1).map(|s| s.as_str()) == Some("--replay") {
        let text = std::fs::read_to_string(&args[2]).expect("read replay file");
        let v: Value = serde_json::from_str(&text).expect("parse replay file");
        let r = v.get("replay").cloned().unwrap_or(v);
        println!("{}", check.replay(&r));
        return;
    }
    let tier = args
        .get(1)
        .and_then(|s| Tier::parse(s))
        .or_else(|| std::env::var("VERIF_TIER").ok().and_then(|s| Tier::parse(&s)))
        .unwrap_or(Tier::Quick);
    if tier == Tier::Thorough && std::env::var("VERIF_EXTRA_SEEDS").is_err() {
        std::env::set_var("VERIF_EXTRA_SEEDS", "3");
    }
    let t0 = std::time::Instant::now();
    let units = check.units(tier);
    let jobs = std::env::var("VERIF_JOBS")
        .ok()
        .and_then(|s| s.parse().ok())
        .unwrap_or_else(|| std::thread::available_parallelism().map(|n| n.get()).unwrap_or(8));
    let n_units = units.len();
    let mut total = pool::run_pool(&id, tier, units, jobs);
    let mut extra = check.finish(tier, &mut total);
    if !total.violations.is_empty() {
        // a violating tree legitimately lacks some outcome classes; the violations are the verdict
        total.machinery_errors.retain(|e| !e.starts_with("vacuous"));
    }
    extra.insert("units".into(), serde_json::json!(n_units));
    extra.insert("shim".into(), serde_json::json!(exec::shim_present()));
    let meta = check.meta(tier);
    let code = report::conclude(
        &meta,
        tier.as_str(),
        seed(),
        t0.elapsed().as_secs_f64(),
        &total,
        extra,
    );
    std::process::exit(code);
}
