//! One execution = one fresh OS thread, one paused current-thread tokio runtime, one seed.

use std::sync::mpsc;
use std::sync::{Mutex, Once};
use std::time::Duration;

#[derive(Clone, Debug)]
pub struct PanicRecord {
    pub message: String,
    pub location: String,
}

impl PanicRecord {
    /// Panics raised from code under /repo (the subject) as opposed to the harness itself.
    pub fn in_subject(&self) -> bool {
        self.location.contains("/repo/") || self.location.contains("crates/anemo")
    }
    pub fn in_harness(&self) -> bool {
        self.location.contains("/verif/") || self.location.contains("vcheck/src")
    }
}

static PANICS: Mutex<Vec<(std::thread::ThreadId, PanicRecord)>> = Mutex::new(Vec::new());
static HOOK: Once = Once::new();

pub fn install_panic_hook() {
    HOOK.call_once(|| {
        let verbose = std::env::var("VERIF_VERBOSE").is_ok();
        std::panic::set_hook(Box::new(move |info| {
            let message = if let Some(s) = info.payload().downcast_ref::<&str>() {
                s.to_string()
            } else if let Some(s) = info.payload().downcast_ref::<String>() {
                s.clone()
            } else {
                "<non-string panic>".to_string()
            };
            let location = info
                .location()
                .map(|l| format!("{}:{}:{}", l.file(), l.line(), l.column()))
                .unwrap_or_default();
            if verbose {
                eprintln!("[panic] {message} at {location}");
            }
            // a panic the scenario asked its own application handler to raise is an input
            if message.starts_with("deliberate:") {
                return;
            }
            if let Ok(mut g) = PANICS.lock() {
                g.push((std::thread::current().id(), PanicRecord { message, location }));
            }
        }));
    });
}

pub fn take_panics(id: std::thread::ThreadId) -> Vec<PanicRecord> {
    let mut g = PANICS.lock().unwrap();
    let mut out = vec![];
    g.retain(|(t, r)| {
        if *t == id {
            out.push(r.clone());
            false
        } else {
            true
        }
    });
    out
}

pub fn panic_message(p: &Box<dyn std::any::Any + Send>) -> String {
    if let Some(s) = p.downcast_ref::<&str>() {
        s.to_string()
    } else if let Some(s) = p.downcast_ref::<String>() {
        s.clone()
    } else {
        "<non-string panic>".to_string()
    }
}

pub struct ExecOutcome<T> {
    /// None if the execution thread hung or its body panicked.
    pub value: Option<T>,
    pub panics: Vec<PanicRecord>,
    pub hung: bool,
    pub body_panicked: bool,
}

pub fn shim_present() -> bool {
    unsafe { !libc::dlsym(libc::RTLD_DEFAULT, c"detrand_present".as_ptr()).is_null() }
}

fn shim_reset(seed: u64) {
    unsafe {
        let p = libc::dlsym(libc::RTLD_DEFAULT, c"detrand_reset".as_ptr());
        if !p.is_null() {
            let f: extern "C" fn(u64) = std::mem::transmute(p);
            f(seed);
        }
    }
}

pub fn wall_watchdog() -> Duration {
    Duration::from_secs(
        std::env::var("VERIF_WATCHDOG_S")
            .ok()
            .and_then(|s| s.parse().ok())
            .unwrap_or(60),
    )
}

/// Run `f` on a fresh OS thread. `f` builds its own runtime (see `runtime`).
pub fn run_exec<T: Send + 'static>(
    seed: u64,
    watchdog: Duration,
    f: impl FnOnce() -> T + Send + 'static,
) -> ExecOutcome<T> {
    install_panic_hook();
    let (tx, rx) = mpsc::channel();
    let handle = std::thread::Builder::new()
        .name("exec".into())
        .stack_size(16 << 20)
        .spawn(move || {
            shim_reset(seed);
            let r = std::panic::catch_unwind(std::panic::AssertUnwindSafe(f));
            let _ = tx.send(r.ok());
        })
        .expect("spawn exec thread");
    let id = handle.thread().id();
    match rx.recv_timeout(watchdog) {
        Ok(v) => {
            let _ = handle.join();
            let panics = take_panics(id);
            ExecOutcome {
                body_panicked: v.is_none(),
                value: v,
                panics,
                hung: false,
            }
        }
        Err(_) => ExecOutcome {
            value: None,
            panics: take_panics(id),
            hung: true,
            body_panicked: false,
        },
    }
}

/// A paused, single-threaded runtime whose internal RNG (select! branch order) is seeded.
pub fn runtime(seed: u64) -> tokio::runtime::Runtime {
    let mut bytes = [0u8; 16];
    bytes[..8].copy_from_slice(&seed.to_le_bytes());
    bytes[8..].copy_from_slice(&(seed ^ 0x5bd1e995).to_le_bytes());
    tokio::runtime::Builder::new_current_thread()
        .enable_all()
        .start_paused(true)
        .max_blocking_threads(1)
        .global_queue_interval(u32::MAX)
        .event_interval(u32::MAX)
        .rng_seed(tokio::runtime::RngSeed::from_bytes(&bytes))
        .build()
        .expect("runtime")
}
