//! Simulated world: real `anemo::Network`s on the fabric, a scripted user service with full
//! request logging, and helpers for drivers and oracles.

use crate::explore::{Chooser, SharedChooser};
use crate::fabric::Fabric;
use anemo::types::response::StatusCode;
use anemo::types::{PeerEvent, PeerInfo};
use anemo::{Network, PeerId, Request, Response};
use bytes::Bytes;
use futures::future::BoxFuture;
use std::collections::{BTreeMap, HashMap};
use std::convert::Infallible;
use std::sync::atomic::{AtomicI64, AtomicU64, Ordering};
use std::sync::{Arc, Mutex};
use std::task::{Context, Poll};
use std::time::Duration;
use tokio::sync::broadcast;
use tokio::time::Instant;

pub const NET_NAME: &str = "sim";

#[derive(Clone, Debug, PartialEq, Eq)]
pub struct SeenRequest {
    pub node: usize,
    pub t_us: u64,
    pub route: String,
    pub headers: BTreeMap<String, String>,
    pub body_len: usize,
    pub body_hash: u64,
    pub peer_id: Option<PeerId>,
    pub origin: Option<String>,
    pub direction_inbound: Option<bool>,
    pub has_network_ref: bool,
}

#[derive(Clone, Debug, PartialEq, Eq)]
pub enum SvcEvent {
    Start { node: usize, id: String, t_us: u64 },
    Complete { node: usize, id: String, t_us: u64 },
    /// the handler future was dropped before completing
    Dropped { node: usize, id: String, t_us: u64 },
}

#[derive(Default)]
pub struct SvcShared {
    pub requests: Mutex<Vec<SeenRequest>>,
    pub events: Mutex<Vec<SvcEvent>>,
    gates: Mutex<HashMap<String, Gate>>,
    pub clones_live: AtomicI64,
    pub clones_created: AtomicU64,
    pub clones_dropped: AtomicU64,
    /// live service clones per node
    pub live_by_node: Mutex<HashMap<usize, i64>>,
    pub inflight: Mutex<HashMap<usize, i64>>,
    pub max_inflight: Mutex<HashMap<usize, i64>>,
    t0: Mutex<Option<Instant>>,
}

enum Gate {
    Waiting(Vec<tokio::sync::oneshot::Sender<()>>),
    Open,
}

impl SvcShared {
    fn now_us(&self) -> u64 {
        let t0 = *self.t0.lock().unwrap().get_or_insert_with(Instant::now);
        (Instant::now() - t0).as_micros() as u64
    }
    pub fn release(&self, gate: &str) {
        let mut g = self.gates.lock().unwrap();
        if let Some(Gate::Waiting(ws)) = g.insert(gate.to_string(), Gate::Open) {
            for w in ws {
                let _ = w.send(());
            }
        }
    }
    fn wait(&self, gate: &str) -> Option<tokio::sync::oneshot::Receiver<()>> {
        let mut g = self.gates.lock().unwrap();
        match g.entry(gate.to_string()).or_insert_with(|| Gate::Waiting(vec![])) {
            Gate::Open => None,
            Gate::Waiting(ws) => {
                let (tx, rx) = tokio::sync::oneshot::channel();
                ws.push(tx);
                Some(rx)
            }
        }
    }
    pub fn live_clones(&self, node: usize) -> i64 {
        *self.live_by_node.lock().unwrap().get(&node).unwrap_or(&0)
    }
    /// close a released gate again (later requests wait again)
    pub fn rearm(&self, gate: &str) {
        self.gates.lock().unwrap().remove(gate);
    }
    pub fn started(&self, id: &str) -> usize {
        self.events
            .lock()
            .unwrap()
            .iter()
            .filter(|e| matches!(e, SvcEvent::Start { id: i, .. } if i == id))
            .count()
    }
    pub fn dropped_at(&self, id: &str) -> Option<u64> {
        self.events.lock().unwrap().iter().find_map(|e| match e {
            SvcEvent::Dropped { id: i, t_us, .. } if i == id => Some(*t_us),
            _ => None,
        })
    }
    pub fn completed(&self, id: &str) -> bool {
        self.events
            .lock()
            .unwrap()
            .iter()
            .any(|e| matches!(e, SvcEvent::Complete { id: i, .. } if i == id))
    }
    pub fn start_at(&self, id: &str) -> Option<u64> {
        self.events.lock().unwrap().iter().find_map(|e| match e {
            SvcEvent::Start { id: i, t_us, .. } if i == id => Some(*t_us),
            _ => None,
        })
    }
}

/// The user service given to every simulated network. Behaviour is selected by request headers:
/// `id` (logged), `gate` (wait until released), `sleep-ms`, `never`, `want-status`, `resp-len`,
/// `h-*` (echoed back). The body is echoed unless `resp-len` is given.
pub struct HarnessSvc {
    pub node: usize,
    pub shared: Arc<SvcShared>,
}

impl Clone for HarnessSvc {
    fn clone(&self) -> Self {
        *self.shared.live_by_node.lock().unwrap().entry(self.node).or_default() += 1;
        self.shared.clones_live.fetch_add(1, Ordering::SeqCst);
        self.shared.clones_created.fetch_add(1, Ordering::SeqCst);
        HarnessSvc {
            node: self.node,
            shared: self.shared.clone(),
        }
    }
}

impl Drop for HarnessSvc {
    fn drop(&mut self) {
        *self.shared.live_by_node.lock().unwrap().entry(self.node).or_default() -= 1;
        self.shared.clones_live.fetch_sub(1, Ordering::SeqCst);
        self.shared.clones_dropped.fetch_add(1, Ordering::SeqCst);
    }
}

impl HarnessSvc {
    pub fn new(node: usize, shared: Arc<SvcShared>) -> Self {
        *shared.live_by_node.lock().unwrap().entry(node).or_default() += 1;
        shared.clones_live.fetch_add(1, Ordering::SeqCst);
        shared.clones_created.fetch_add(1, Ordering::SeqCst);
        HarnessSvc { node, shared }
    }
}

struct HandlerGuard {
    shared: Arc<SvcShared>,
    node: usize,
    id: String,
    done: bool,
}

impl Drop for HandlerGuard {
    fn drop(&mut self) {
        let t_us = self.shared.now_us();
        *self.shared.inflight.lock().unwrap().entry(self.node).or_default() -= 1;
        let ev = if self.done {
            SvcEvent::Complete {
                node: self.node,
                id: self.id.clone(),
                t_us,
            }
        } else {
            SvcEvent::Dropped {
                node: self.node,
                id: self.id.clone(),
                t_us,
            }
        };
        self.shared.events.lock().unwrap().push(ev);
    }
}

pub fn pattern_body(seed: u64, len: usize) -> Bytes {
    let mut v = Vec::with_capacity(len);
    let mut x = seed.wrapping_mul(0x9E3779B97F4A7C15) | 1;
    for i in 0..len {
        if i % 8 == 0 {
            x ^= x << 13;
            x ^= x >> 7;
            x ^= x << 17;
        }
        v.push((x >> ((i % 8) * 8)) as u8);
    }
    Bytes::from(v)
}

/// What the harness service answers to a request with these headers/body (pure function).
pub fn expected_response(
    headers: &BTreeMap<String, String>,
    route: &str,
    body: &Bytes,
) -> (StatusCode, BTreeMap<String, String>, Bytes) {
    let status = headers
        .get("want-status")
        .and_then(|s| s.parse::<u16>().ok())
        .and_then(|c| StatusCode::new(c).ok())
        .unwrap_or(StatusCode::Success);
    let mut h = BTreeMap::new();
    if let Some(id) = headers.get("id") {
        h.insert("id".to_string(), id.clone());
    }
    h.insert("echo-route".to_string(), route.to_string());
    for (k, v) in headers {
        if k.starts_with("h-") {
            h.insert(k.clone(), v.clone());
        }
    }
    if let Some(n) = headers.get("resp-pad").and_then(|s| s.parse::<usize>().ok()) {
        h.insert("pad".to_string(), "p".repeat(n));
    }
    let body = match headers.get("resp-len").and_then(|s| s.parse::<usize>().ok()) {
        Some(n) => pattern_body(crate::explore::fnv(route.as_bytes()) ^ n as u64, n),
        None => body.clone(),
    };
    (status, h, body)
}

impl tower::Service<Request<Bytes>> for HarnessSvc {
    type Response = Response<Bytes>;
    type Error = Infallible;
    type Future = BoxFuture<'static, Result<Response<Bytes>, Infallible>>;

    fn poll_ready(&mut self, _cx: &mut Context<'_>) -> Poll<Result<(), Infallible>> {
        Poll::Ready(Ok(()))
    }

    fn call(&mut self, req: Request<Bytes>) -> Self::Future {
        let shared = self.shared.clone();
        let node = self.node;
        let headers: BTreeMap<String, String> =
            req.headers().iter().map(|(k, v)| (k.clone(), v.clone())).collect();
        let id = headers.get("id").cloned().unwrap_or_else(|| "?".into());
        let t_us = shared.now_us();
        let seen = SeenRequest {
            node,
            t_us,
            route: req.route().to_string(),
            headers: headers.clone(),
            body_len: req.body().len(),
            body_hash: crate::explore::fnv(req.body()),
            peer_id: req.peer_id().copied(),
            origin: req
                .extensions()
                .get::<anemo::ConnectionOrigin>()
                .map(|o| o.to_string()),
            direction_inbound: req
                .extensions()
                .get::<anemo::Direction>()
                .map(|d| *d == anemo::Direction::Inbound),
            has_network_ref: req.extensions().get::<anemo::NetworkRef>().is_some(),
        };
        shared.requests.lock().unwrap().push(seen);
        shared.events.lock().unwrap().push(SvcEvent::Start {
            node,
            id: id.clone(),
            t_us,
        });
        {
            let mut g = shared.inflight.lock().unwrap();
            let e = g.entry(node).or_default();
            *e += 1;
            let cur = *e;
            let mut m = shared.max_inflight.lock().unwrap();
            let me = m.entry(node).or_default();
            *me = (*me).max(cur);
        }
        let mut guard = HandlerGuard {
            shared: shared.clone(),
            node,
            id,
            done: false,
        };
        let route = req.route().to_string();
        let body = req.into_body();
        Box::pin(async move {
            if let Some(g) = headers.get("gate") {
                if let Some(rx) = shared.wait(g) {
                    let _ = rx.await;
                }
            }
            if let Some(ms) = headers.get("sleep-ms").and_then(|s| s.parse::<u64>().ok()) {
                tokio::time::sleep(Duration::from_millis(ms)).await;
            }
            if headers.contains_key("never") {
                futures::future::pending::<()>().await;
            }
            if headers.contains_key("panic") {
                // a bug in the application's handler
                panic!("deliberate: application handler panics");
            }
            let (status, h, body) = expected_response(&headers, &route, &body);
            let mut resp = Response::new(body).with_status(status);
            for (k, v) in h {
                resp.headers_mut().insert(k, v);
            }
            guard.done = true;
            drop(guard);
            Ok(resp)
        })
    }
}

#[derive(Clone)]
pub struct NodeSpec {
    pub key: u8,
    pub name: String,
    pub alt: Option<String>,
    pub config: anemo::Config,
}

impl NodeSpec {
    pub fn new(key: u8) -> Self {
        NodeSpec {
            key,
            name: NET_NAME.to_string(),
            alt: None,
            config: anemo::Config::default(),
        }
    }
    pub fn config(mut self, c: anemo::Config) -> Self {
        self.config = c;
        self
    }
}

pub fn key_bytes(key: u8) -> [u8; 32] {
    [key; 32]
}

/// PeerId (Ed25519 public key) for private key `[key; 32]`.
pub fn peer_id_of_key(key: u8) -> PeerId {
    use ring::signature::KeyPair;
    let kp = ring::signature::Ed25519KeyPair::from_seed_unchecked(&key_bytes(key)).unwrap();
    let mut id = [0u8; 32];
    id.copy_from_slice(kp.public_key().as_ref());
    PeerId(id)
}

pub struct Sim {
    pub fabric: Arc<Fabric>,
    pub chooser: SharedChooser,
    pub svc: Arc<SvcShared>,
    pub t0: Instant,
    /// peer id -> label used in observation logs ("n0", "n1", ...)
    pub labels: Mutex<HashMap<PeerId, String>>,
    pub taps: Arc<Mutex<Vec<(usize, anemo::verif::TapEvent)>>>,
    /// values that must outlive the runtime (handles kept alive across runtime teardown)
    pub keep: Mutex<Vec<Box<dyn std::any::Any + Send>>>,
    /// closures run after the runtime has been dropped; they return (key, message) violations
    pub post: Mutex<Vec<Box<dyn FnOnce() -> Vec<(String, String)> + Send>>>,
}

/// Turns a `Status` failure of the wrapped service into the response that carries it (what
/// anemo's generated servers do), so that the stack can be handed to `Network::start`.
#[derive(Clone)]
pub struct StatusToResponse<S>(pub S);

impl<S> tower::Service<Request<Bytes>> for StatusToResponse<S>
where
    S: tower::Service<Request<Bytes>, Response = Response<Bytes>, Error = anemo::rpc::Status>,
    S::Future: Send + 'static,
{
    type Response = Response<Bytes>;
    type Error = Infallible;
    type Future = BoxFuture<'static, Result<Response<Bytes>, Infallible>>;
    fn poll_ready(&mut self, cx: &mut Context<'_>) -> Poll<Result<(), Infallible>> {
        match self.0.poll_ready(cx) {
            Poll::Pending => Poll::Pending,
            Poll::Ready(_) => Poll::Ready(Ok(())),
        }
    }
    fn call(&mut self, req: Request<Bytes>) -> Self::Future {
        use anemo::types::response::IntoResponse;
        let fut = self.0.call(req);
        Box::pin(async move {
            Ok(match fut.await {
                Ok(resp) => resp,
                Err(status) => status.into_response(),
            })
        })
    }
}

impl Sim {
    /// Must be called inside the execution's runtime.
    pub fn new(prefix: &[u32], default_latency_us: u64) -> Arc<Sim> {
        let chooser = Chooser::shared(prefix);
        let fabric = Fabric::new(chooser.clone(), default_latency_us);
        fabric.install();
        anemo::verif::set_inline_resolve(true);
        let svc = Arc::new(SvcShared::default());
        let taps: Arc<Mutex<Vec<(usize, anemo::verif::TapEvent)>>> = Arc::new(Mutex::new(vec![]));
        {
            let taps = taps.clone();
            anemo::verif::set_tap(Some(Arc::new(move |registry, ev| taps.lock().unwrap().push((registry, ev)))));
        }
        let t0 = Instant::now();
        *svc.t0.lock().unwrap() = Some(t0);
        Arc::new(Sim {
            fabric,
            chooser,
            svc,
            t0,
            labels: Mutex::new(HashMap::new()),
            taps,
            keep: Mutex::new(vec![]),
            post: Mutex::new(vec![]),
        })
    }

    pub fn now_us(&self) -> u64 {
        (Instant::now() - self.t0).as_micros() as u64
    }

    pub fn choose(&self, tag: &str, menu: u32) -> u32 {
        self.chooser.lock().unwrap().choose(tag, menu)
    }

    /// Fold a driver-visible event into the replay hash.
    pub fn observe(&self, s: &str) {
        self.chooser.lock().unwrap().observe(s.as_bytes());
    }

    pub fn label(&self, p: &PeerId) -> String {
        self.labels
            .lock()
            .unwrap()
            .get(p)
            .cloned()
            .unwrap_or_else(|| format!("?{}", &p.to_string()[..6]))
    }

    /// Start a real network on the fabric with the harness service. Its node index is the number
    /// of sockets attached before it.
    pub fn start(&self, spec: &NodeSpec) -> anyhow::Result<Network> {
        let node = self.fabric.nodes();
        let svc = HarnessSvc::new(node, self.svc.clone());
        let mut b = Network::bind("127.0.0.1:0")
            .private_key(key_bytes(spec.key))
            .server_name(spec.name.clone())
            .config(spec.config.clone());
        if let Some(a) = &spec.alt {
            b = b.alternate_server_name(a.clone());
        }
        let n = b.start(svc)?;
        self.labels
            .lock()
            .unwrap()
            .insert(n.peer_id(), format!("n{node}"));
        Ok(n)
    }

    /// Like `start`, but the user service admits at most `limit` requests at a time (its
    /// `poll_ready` is pending while it is full).
    pub fn start_limited(&self, spec: &NodeSpec, limit: usize) -> anyhow::Result<Network> {
        let node = self.fabric.nodes();
        let svc = tower::limit::ConcurrencyLimit::new(HarnessSvc::new(node, self.svc.clone()), limit);
        let mut b = Network::bind("127.0.0.1:0")
            .private_key(key_bytes(spec.key))
            .server_name(spec.name.clone())
            .config(spec.config.clone());
        if let Some(a) = &spec.alt {
            b = b.alternate_server_name(a.clone());
        }
        let n = b.start(svc)?;
        self.labels.lock().unwrap().insert(n.peer_id(), format!("n{node}"));
        Ok(n)
    }

    /// Like `start`, but the service is reached through an `anemo::Router` with these routes.
    pub fn start_routed(&self, spec: &NodeSpec, routes: &[&str]) -> anyhow::Result<Network> {
        let node = self.fabric.nodes();
        let svc = HarnessSvc::new(node, self.svc.clone());
        let mut router = anemo::Router::new();
        for r in routes {
            router = router.route(r, svc.clone());
        }
        let mut b = Network::bind("127.0.0.1:0")
            .private_key(key_bytes(spec.key))
            .server_name(spec.name.clone())
            .config(spec.config.clone());
        if let Some(a) = &spec.alt {
            b = b.alternate_server_name(a.clone());
        }
        let n = b.start(router)?;
        self.labels.lock().unwrap().insert(n.peer_id(), format!("n{node}"));
        Ok(n)
    }

    /// Like `start`, with anemo-tower's per-peer in-flight limit around the service.
    pub fn start_inflight(&self, spec: &NodeSpec, max: usize, block: bool) -> anyhow::Result<Network> {
        use anemo_tower::inflight_limit::{InflightLimit, WaitMode};
        let node = self.fabric.nodes();
        use tower::ServiceExt;
        // the limiter wants an inner service that fails with `Status`; the network wants one that
        // never fails: adapters on both sides, as an application would write them
        let inner = HarnessSvc::new(node, self.svc.clone()).map_err(|e: Infallible| -> anemo::rpc::Status { match e {} });
        let limited = InflightLimit::new(inner, max, if block { WaitMode::Block } else { WaitMode::ReturnError });
        let svc = StatusToResponse(limited);
        let mut b = Network::bind("127.0.0.1:0")
            .private_key(key_bytes(spec.key))
            .server_name(spec.name.clone())
            .config(spec.config.clone());
        if let Some(a) = &spec.alt {
            b = b.alternate_server_name(a.clone());
        }
        let n = b.start(svc)?;
        self.labels.lock().unwrap().insert(n.peer_id(), format!("n{node}"));
        Ok(n)
    }

    /// Like `start`, with a user-provided outbound request layer that tags requests with `h-user`.
    pub fn start_with_user_layer(&self, spec: &NodeSpec) -> anyhow::Result<Network> {
        self.start_with_user_layer_ordered(spec, false)
    }

    /// `layer_first`: the builder is given the outbound layer before the configuration.
    pub fn start_with_user_layer_ordered(&self, spec: &NodeSpec, layer_first: bool) -> anyhow::Result<Network> {
        let node = self.fabric.nodes();
        let svc = HarnessSvc::new(node, self.svc.clone());
        let layer = tower::util::MapRequestLayer::new(|mut r: Request<Bytes>| {
            r.headers_mut().insert("h-user".into(), "1".into());
            // a deadline stamped by application middleware: it sits below anemo's own outbound
            // timeout layer, so only the serving side can enforce it
            if let Some(v) = r.headers_mut().remove("h-stamp-timeout") {
                r.headers_mut().insert("timeout".into(), v);
            }
            r
        });
        let b = Network::bind("127.0.0.1:0").private_key(key_bytes(spec.key)).server_name(spec.name.clone());
        let mut b = if layer_first { b.outbound_request_layer(layer).config(spec.config.clone()) } else { b.config(spec.config.clone()).outbound_request_layer(layer) };
        if let Some(a) = &spec.alt {
            b = b.alternate_server_name(a.clone());
        }
        let n = b.start(svc)?;
        self.labels
            .lock()
            .unwrap()
            .insert(n.peer_id(), format!("n{node}"));
        Ok(n)
    }

    pub fn node_of(&self, n: &Network) -> usize {
        self.fabric.node_of(n.local_addr()).expect("node")
    }

    pub fn request(id: &str) -> Request<Bytes> {
        Request::new(Bytes::new()).with_header("id", id)
    }
}

impl Drop for Sim {
    fn drop(&mut self) {
        Fabric::uninstall();
        anemo::verif::set_tap(None);
        anemo::verif::set_jitter_override(None);
        anemo::verif::set_inline_resolve(false);
    }
}

pub fn drain_events(rx: &mut broadcast::Receiver<PeerEvent>) -> Vec<PeerEvent> {
    let mut out = vec![];
    loop {
        match rx.try_recv() {
            Ok(e) => out.push(e),
            Err(broadcast::error::TryRecvError::Lagged(_)) => continue,
            Err(_) => break,
        }
    }
    out
}

pub fn event_str(sim: &Sim, e: &PeerEvent) -> String {
    match e {
        PeerEvent::NewPeer(p) => format!("New({})", sim.label(p)),
        PeerEvent::LostPeer(p, r) => format!("Lost({},{:?})", sim.label(p), r),
    }
}

/// Per peer, events must strictly alternate New, Lost, New, ... starting from `initially_present`.
pub fn check_alternation(
    events: &[PeerEvent],
    initially: &[PeerId],
) -> Result<Vec<PeerId>, String> {
    let mut present: std::collections::BTreeSet<PeerId> = initially.iter().copied().collect();
    for (i, e) in events.iter().enumerate() {
        match e {
            PeerEvent::NewPeer(p) => {
                if !present.insert(*p) {
                    return Err(format!("event {i}: NewPeer for a peer already present"));
                }
            }
            PeerEvent::LostPeer(p, _) => {
                if !present.remove(p) {
                    return Err(format!("event {i}: LostPeer for a peer not present"));
                }
            }
        }
    }
    Ok(present.into_iter().collect())
}

pub fn sorted(mut v: Vec<PeerId>) -> Vec<PeerId> {
    v.sort();
    v
}

pub fn known_peer(peer_id: PeerId, affinity: anemo::types::PeerAffinity, addrs: Vec<std::net::SocketAddr>) -> PeerInfo {
    PeerInfo {
        peer_id,
        affinity,
        address: addrs.into_iter().map(Into::into).collect(),
    }
}

pub fn ms(n: u64) -> Duration {
    Duration::from_millis(n)
}

// ---------------------------------------------------------------------------------------------
// RPC helpers shared by several checks
// ---------------------------------------------------------------------------------------------

#[derive(Clone, Debug)]
pub struct RpcSpec {
    pub id: String,
    pub route: String,
    pub headers: BTreeMap<String, String>,
    pub body: Bytes,
}

impl RpcSpec {
    pub fn new(id: &str) -> Self {
        let mut headers = BTreeMap::new();
        headers.insert("id".to_string(), id.to_string());
        RpcSpec {
            id: id.to_string(),
            route: "/".to_string(),
            headers,
            body: Bytes::new(),
        }
    }
    pub fn route(mut self, r: &str) -> Self {
        self.route = r.to_string();
        self
    }
    pub fn header(mut self, k: &str, v: impl Into<String>) -> Self {
        self.headers.insert(k.to_string(), v.into());
        self
    }
    pub fn body(mut self, b: Bytes) -> Self {
        self.body = b;
        self
    }
    pub fn to_request(&self) -> Request<Bytes> {
        let mut r = Request::new(self.body.clone()).with_route(self.route.clone());
        for (k, v) in &self.headers {
            r.headers_mut().insert(k.clone(), v.clone());
        }
        r
    }
}

#[derive(Clone, Debug)]
pub struct RpcOk {
    pub status: StatusCode,
    pub headers: BTreeMap<String, String>,
    pub body: Bytes,
    pub peer_id: Option<PeerId>,
}

#[derive(Clone, Debug)]
pub struct RpcOutcome {
    pub id: String,
    pub result: Result<RpcOk, String>,
    pub t_start_us: u64,
    pub t_end_us: u64,
}

pub async fn do_rpc(sim: &Sim, net: &Network, peer: PeerId, spec: &RpcSpec) -> RpcOutcome {
    let t_start_us = sim.now_us();
    let r = net.rpc(peer, spec.to_request()).await;
    let t_end_us = sim.now_us();
    RpcOutcome {
        id: spec.id.clone(),
        result: match r {
            Ok(resp) => Ok(RpcOk {
                status: resp.status(),
                headers: resp.headers().iter().map(|(k, v)| (k.clone(), v.clone())).collect(),
                peer_id: resp.peer_id().copied(),
                body: resp.into_body(),
            }),
            Err(e) => Err(format!("{e:#}")),
        },
        t_start_us,
        t_end_us,
    }
}

/// The same through a `Peer` handle the caller keeps.
pub async fn do_rpc_via(sim: &Sim, peer: &mut anemo::Peer, spec: &RpcSpec) -> RpcOutcome {
    let t_start_us = sim.now_us();
    let r = peer.rpc(spec.to_request()).await;
    let t_end_us = sim.now_us();
    RpcOutcome {
        id: spec.id.clone(),
        result: match r {
            Ok(resp) => Ok(RpcOk {
                status: resp.status(),
                headers: resp.headers().iter().map(|(k, v)| (k.clone(), v.clone())).collect(),
                peer_id: resp.peer_id().copied(),
                body: resp.into_body(),
            }),
            Err(e) => Err(format!("{e:#}")),
        },
        t_start_us,
        t_end_us,
    }
}

/// Compare a successful response with what the harness service computes for this request.
pub fn check_response(spec: &RpcSpec, ok: &RpcOk, callee: PeerId) -> Result<(), String> {
    let (status, headers, body) = expected_response(&spec.headers, &spec.route, &spec.body);
    if ok.status != status {
        return Err(format!("rpc {}: status {:?}, expected {:?}", spec.id, ok.status, status));
    }
    if ok.headers != headers {
        return Err(format!(
            "rpc {}: response headers {:?}, expected {:?}",
            spec.id,
            abbreviate_map(&ok.headers),
            abbreviate_map(&headers)
        ));
    }
    if ok.body != body {
        return Err(format!(
            "rpc {}: response body differs (got {} bytes hash {:x}, expected {} bytes hash {:x})",
            spec.id,
            ok.body.len(),
            crate::explore::fnv(&ok.body),
            body.len(),
            crate::explore::fnv(&body)
        ));
    }
    if ok.peer_id != Some(callee) {
        return Err(format!("rpc {}: response attributed to {:?}, not the callee", spec.id, ok.peer_id));
    }
    Ok(())
}

pub fn abbreviate_map(m: &BTreeMap<String, String>) -> BTreeMap<String, String> {
    m.iter()
        .map(|(k, v)| {
            let v = if v.len() > 40 {
                format!("{}..({} bytes)", &v[..20], v.len())
            } else {
                v.clone()
            };
            (k.clone(), v)
        })
        .collect()
}

/// What the callee's service saw for this request id must be exactly what was sent, once.
pub fn check_seen(sim: &Sim, spec: &RpcSpec, callee_node: usize, caller: PeerId) -> Result<usize, String> {
    let reqs = sim.svc.requests.lock().unwrap();
    let seen: Vec<&SeenRequest> = reqs
        .iter()
        .filter(|r| r.headers.get("id") == Some(&spec.id))
        .collect();
    if seen.len() > 1 {
        return Err(format!("request {} was delivered to a handler {} times", spec.id, seen.len()));
    }
    for s in &seen {
        if s.node != callee_node {
            return Err(format!("request {} was delivered to node {} instead of {}", spec.id, s.node, callee_node));
        }
        if s.route != spec.route
            || s.headers != spec.headers
            || s.body_len != spec.body.len()
            || s.body_hash != crate::explore::fnv(&spec.body)
        {
            return Err(format!(
                "request {} reached the handler altered: route {:?} headers {:?} body {} bytes (sent route {:?}, {} bytes)",
                spec.id,
                s.route,
                abbreviate_map(&s.headers),
                s.body_len,
                spec.route,
                spec.body.len()
            ));
        }
        if s.peer_id != Some(caller) {
            return Err(format!("request {} attributed to {:?}, not the caller", spec.id, s.peer_id));
        }
    }
    Ok(seen.len())
}


// ---------------------------------------------------------------------------------------------
// Trace conformance: every registry (ActivePeers instance) of every network of an execution must
// have behaved like the sequential reference model, call by call (hook H4 taps).
// ---------------------------------------------------------------------------------------------

/// Replays the tap trace of each registry against the reference model of C04 (one connection per
/// peer, tie-break by identities and directions, events exactly as the listing changes).
/// Returns (key, message) for every deviation, and the number of calls checked.
pub fn check_registry_traces(sim: &Sim) -> (Vec<(String, String)>, u64) {
    use anemo::verif::TapEvent;
    use anemo::types::DisconnectReason;
    let taps = sim.taps.lock().unwrap().clone();
    let mut bad = vec![];
    let mut calls = 0u64;
    let mut registries: Vec<usize> = taps.iter().map(|t| t.0).collect();
    registries.sort();
    registries.dedup();
    for reg in registries {
        // peer -> (inbound?, stable id)
        let mut model: HashMap<PeerId, (bool, usize)> = HashMap::new();
        let mine: Vec<&TapEvent> = taps.iter().filter(|t| t.0 == reg).map(|t| &t.1).collect();
        let mut i = 0;
        while i < mine.len() {
            let call = mine[i];
            i += 1;
            let mut got: Vec<&PeerEvent> = vec![];
            while i < mine.len() {
                if let TapEvent::Event(e) = mine[i] {
                    got.push(e);
                    i += 1;
                } else {
                    break;
                }
            }
            let mut want: Vec<PeerEvent> = vec![];
            match call {
                TapEvent::AddCall { own, peer, origin, stable_id } => {
                    calls += 1;
                    let inbound = origin.to_string() == "inbound";
                    let register = match model.get(peer) {
                        None => true,
                        Some((old_inbound, _)) => {
                            if *old_inbound == inbound {
                                true
                            } else {
                                let new_dialer = if inbound { *peer } else { *own };
                                let old_dialer = if *old_inbound { *peer } else { *own };
                                new_dialer > old_dialer
                            }
                        }
                    };
                    if register {
                        if model.contains_key(peer) {
                            want.push(PeerEvent::LostPeer(*peer, DisconnectReason::Requested));
                        }
                        want.push(PeerEvent::NewPeer(*peer));
                        model.insert(*peer, (inbound, *stable_id));
                    }
                }
                TapEvent::RemoveCall { peer } => {
                    calls += 1;
                    if model.remove(peer).is_some() {
                        want.push(PeerEvent::LostPeer(*peer, DisconnectReason::Requested));
                    }
                }
                TapEvent::RemoveIdCall { peer, stable_id, reason } => {
                    calls += 1;
                    if model.get(peer).map(|m| m.1) == Some(*stable_id) {
                        model.remove(peer);
                        want.push(PeerEvent::LostPeer(*peer, reason.clone()));
                    }
                }
                TapEvent::Event(e) => {
                    bad.push(("registry-trace".to_string(), format!("an event ({}) was announced outside any registry operation", event_str(sim, e))));
                    continue;
                }
            }
            let got_owned: Vec<PeerEvent> = got.into_iter().cloned().collect();
            if got_owned != want {
                bad.push((
                    "registry-trace".to_string(),
                    format!(
                        "registry operation {:?} announced {:?}; the reference model (one connection per peer, tie-break by identity and direction) expects {:?}",
                        describe_call(sim, call),
                        got_owned.iter().map(|e| event_str(sim, e)).collect::<Vec<_>>(),
                        want.iter().map(|e| event_str(sim, e)).collect::<Vec<_>>()
                    ),
                ));
                // resynchronise the model on what actually happened
                for e in &got_owned {
                    match e {
                        PeerEvent::LostPeer(p, _) => {
                            model.remove(p);
                        }
                        PeerEvent::NewPeer(p) => {
                            if let TapEvent::AddCall { origin, stable_id, .. } = call {
                                model.insert(*p, (origin.to_string() == "inbound", *stable_id));
                            }
                        }
                    }
                }
            }
        }
    }
    (bad, calls)
}

fn describe_call(sim: &Sim, c: &anemo::verif::TapEvent) -> String {
    use anemo::verif::TapEvent;
    match c {
        TapEvent::AddCall { own, peer, origin, .. } => format!("add(own {}, peer {}, {})", sim.label(own), sim.label(peer), origin),
        TapEvent::RemoveCall { peer } => format!("remove({})", sim.label(peer)),
        TapEvent::RemoveIdCall { peer, reason, .. } => format!("remove_with_stable_id({}, {:?})", sim.label(peer), reason),
        TapEvent::Event(e) => event_str(sim, e),
    }
}
