//! Unit results, merging, evidence files, known findings, violation artefacts.

use serde::{Deserialize, Serialize};
use serde_json::{json, Map, Value};
use std::collections::BTreeMap;

#[derive(Clone, Debug, Serialize, Deserialize)]
pub struct Violation {
    /// Stable identification of *what* fails (input / call site / history class); used to match
    /// known findings.
    pub key: String,
    pub message: String,
    /// Everything needed to re-run the one failing execution.
    pub replay: Value,
}

#[derive(Clone, Debug, Default, Serialize, Deserialize)]
pub struct UnitResult {
    pub evaluations: u64,
    pub states: u64,
    pub transitions: u64,
    pub traces_validated: u64,
    /// observation class -> number of executions in it
    pub classes: BTreeMap<String, u64>,
    pub violations: Vec<Violation>,
    pub samples: Vec<Value>,
    pub caps: Vec<String>,
    pub notes: Vec<String>,
    /// named counters (summed on merge)
    pub counters: BTreeMap<String, u64>,
    /// named maxima (max on merge)
    pub maxima: BTreeMap<String, u64>,
    pub machinery_errors: Vec<String>,
    /// The worker must be replaced after this unit (a thread of it is stuck).
    pub poisoned: bool,
}

impl UnitResult {
    pub fn class(&mut self, c: impl Into<String>) {
        *self.classes.entry(c.into()).or_default() += 1;
    }
    pub fn count(&mut self, k: &str, n: u64) {
        *self.counters.entry(k.to_string()).or_default() += n;
    }
    pub fn maxi(&mut self, k: &str, n: u64) {
        let e = self.maxima.entry(k.to_string()).or_default();
        *e = (*e).max(n);
    }
    pub fn sample(&mut self, v: Value) {
        if self.samples.len() < 3 {
            self.samples.push(v);
        }
    }
    pub fn violation(&mut self, key: impl Into<String>, message: impl Into<String>, replay: Value) {
        // keep at most a handful per key to bound output
        let key = key.into();
        let n = self.violations.iter().filter(|v| v.key == key).count();
        self.count("violating_executions", 1);
        if n < 3 {
            self.violations.push(Violation {
                key,
                message: message.into(),
                replay,
            });
        }
    }
    pub fn merge(&mut self, o: UnitResult) {
        self.evaluations += o.evaluations;
        self.states += o.states;
        self.transitions += o.transitions;
        self.traces_validated += o.traces_validated;
        for (k, v) in o.classes {
            *self.classes.entry(k).or_default() += v;
        }
        for v in o.violations {
            let n = self.violations.iter().filter(|x| x.key == v.key).count();
            if n < 3 {
                self.violations.push(v);
            }
        }
        for s in o.samples {
            if self.samples.len() < 5 {
                self.samples.push(s);
            }
        }
        for c in o.caps {
            if !self.caps.contains(&c) && self.caps.len() < 20 {
                self.caps.push(c);
            }
        }
        for c in o.notes {
            if !self.notes.contains(&c) && self.notes.len() < 20 {
                self.notes.push(c);
            }
        }
        for (k, v) in o.counters {
            *self.counters.entry(k).or_default() += v;
        }
        for (k, v) in o.maxima {
            let e = self.maxima.entry(k).or_default();
            *e = (*e).max(v);
        }
        self.machinery_errors.extend(o.machinery_errors);
    }
}

#[derive(Clone, Debug, Deserialize)]
pub struct KnownFinding {
    pub property: String,
    pub key: String,
    pub what: String,
}

#[derive(Clone, Debug, Deserialize, Default)]
pub struct KnownFindings {
    #[serde(default)]
    pub findings: Vec<KnownFinding>,
    #[serde(default)]
    pub fixed: Vec<String>,
}

pub fn verif_root() -> std::path::PathBuf {
    std::env::var("VERIF_ROOT")
        .map(Into::into)
        .unwrap_or_else(|_| "/verif".into())
}

pub fn load_known_findings() -> KnownFindings {
    let p = verif_root().join("known_findings.json");
    match std::fs::read_to_string(&p) {
        Ok(s) => serde_json::from_str(&s).unwrap_or_default(),
        Err(_) => KnownFindings::default(),
    }
}

pub struct CheckMeta {
    pub property: &'static str,
    pub level: &'static str,
    pub rule: String,
    pub assumptions: Vec<String>,
    pub exhaustive: bool,
}

/// Write evidence, print verdict lines, return the process exit code.
pub fn conclude(
    meta: &CheckMeta,
    tier: &str,
    seed: u64,
    wall_s: f64,
    total: &UnitResult,
    extra: Map<String, Value>,
) -> i32 {
    let known = load_known_findings();
    let mut new_violations = vec![];
    let mut known_hits: BTreeMap<String, String> = BTreeMap::new();
    for v in &total.violations {
        if let Some(k) = known
            .findings
            .iter()
            .find(|k| k.property == meta.property && k.key == v.key)
        {
            known_hits.insert(k.key.clone(), k.what.clone());
        } else {
            new_violations.push(v.clone());
        }
    }

    let distinct = total.classes.len() as u64;
    let mut coverage = Map::new();
    coverage.insert("evaluations".into(), json!(total.evaluations));
    coverage.insert("distinct_nontrivial".into(), json!(distinct));
    coverage.insert("rule".into(), json!(meta.rule));
    coverage.insert(
        "samples".into(),
        Value::Array(if total.samples.is_empty() {
            vec![json!("(no samples recorded)")]
        } else {
            total.samples.clone()
        }),
    );
    if meta.level == "model_checking" {
        coverage.insert("states".into(), json!(total.states.max(1)));
        coverage.insert("transitions".into(), json!(total.transitions.max(1)));
        coverage.insert(
            "traces_validated_against_impl".into(),
            json!(total.traces_validated),
        );
    } else if total.states > 0 {
        coverage.insert("states".into(), json!(total.states));
        coverage.insert("transitions".into(), json!(total.transitions));
    }
    coverage.insert("exhaustive".into(), json!(meta.exhaustive && total.caps.is_empty()));
    coverage.insert("caps_hit".into(), json!(total.caps));
    coverage.insert("notes".into(), json!(total.notes));
    coverage.insert(
        "observation_classes".into(),
        json!(total
            .classes
            .iter()
            .take(40)
            .map(|(k, v)| json!({ "class": k, "executions": v }))
            .collect::<Vec<_>>()),
    );
    coverage.insert("counters".into(), json!(total.counters));
    coverage.insert("maxima".into(), json!(total.maxima));
    coverage.insert(
        "known_findings_reproduced".into(),
        json!(known_hits.keys().collect::<Vec<_>>()),
    );
    for (k, v) in extra {
        coverage.insert(k, v);
    }
    let evidence = json!({
        "property_id": meta.property,
        "tier": tier,
        "seed": seed,
        "level": meta.level,
        "coverage": coverage,
        "assumptions": meta.assumptions,
        "wall_s": wall_s,
        "violations": new_violations.len(),
    });
    let dir = verif_root().join("evidence");
    let _ = std::fs::create_dir_all(&dir);
    let path = dir.join(format!("{}.json", meta.property));
    if let Err(e) = std::fs::write(&path, serde_json::to_string_pretty(&evidence).unwrap()) {
        println!("MACHINERY-ERROR: cannot write evidence {path:?}: {e}");
        return 2;
    }

    if !total.machinery_errors.is_empty() {
        for e in total.machinery_errors.iter().take(10) {
            println!("MACHINERY-ERROR: property={} {e}", meta.property);
        }
        for v in new_violations.iter().take(10) {
            println!("(unreliable run) violation detail: key={} {}", v.key, v.message);
        }
        return 2;
    }

    for (k, what) in &known_hits {
        println!("KNOWN-FINDING: property={} {k}: {what}", meta.property);
    }
    println!(
        "property={} tier={tier} evaluations={} states={} transitions={} classes={} violations={} known={} wall={:.1}s caps={:?}",
        meta.property,
        total.evaluations,
        total.states,
        total.transitions,
        distinct,
        new_violations.len(),
        known_hits.len(),
        wall_s,
        total.caps
    );
    if new_violations.is_empty() {
        return 0;
    }
    let rdir = verif_root().join("replays");
    let _ = std::fs::create_dir_all(&rdir);
    for v in &new_violations {
        let body = json!({
            "property": meta.property,
            "key": v.key,
            "message": v.message,
            "seed": seed,
            "replay": v.replay,
        });
        let text = serde_json::to_string_pretty(&body).unwrap();
        let h = crate::explore::fnv(text.as_bytes());
        let p = rdir.join(format!("{}-{:016x}.json", meta.property, h));
        let _ = std::fs::write(&p, text);
        println!("violation detail: key={} {}", v.key, v.message);
        println!(
            "VIOLATION property={} replay={}",
            meta.property,
            p.display()
        );
    }
    1
}
