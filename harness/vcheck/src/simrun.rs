//! Glue: run one simulated-world execution for a choice prefix; explore all prefixes within a
//! deviation bound; turn hangs, panics and replay divergences into the right kind of result.

use crate::exec::{run_exec, runtime, wall_watchdog, PanicRecord};
use crate::explore::{explore, ChoicePoint, ExecTrace};
use crate::report::UnitResult;
use crate::world::Sim;
use futures::future::BoxFuture;
use serde_json::{json, Value};
use std::sync::Arc;

pub struct SimRun<O> {
    pub trace: Vec<ChoicePoint>,
    pub diverged: Option<String>,
    pub obs: O,
    pub datagrams: usize,
    /// violations found by the scenario's after-runtime hooks
    pub post: Vec<(String, String)>,
}

pub struct SimOutcome<O> {
    pub run: Option<SimRun<O>>,
    pub panics: Vec<PanicRecord>,
    pub hung: bool,
    pub body_panicked: bool,
}

/// Run the scenario `make` once with this choice prefix.
pub fn sim_exec<O, M>(seed: u64, prefix: &[u32], latency_us: u64, make: M) -> SimOutcome<O>
where
    O: Send + 'static,
    M: FnOnce(Arc<Sim>) -> BoxFuture<'static, O> + Send + 'static,
{
    let prefix = prefix.to_vec();
    let r = run_exec(seed, wall_watchdog(), move || {
        let rt = runtime(seed);
        let (mut out, sim) = rt.block_on(async move {
            let sim = Sim::new(&prefix, latency_us);
            let obs = make(sim.clone()).await;
            let (trace, diverged) = {
                let ch = sim.chooser.lock().unwrap();
                (ch.trace.clone(), ch.diverged.clone())
            };
            let datagrams = sim.fabric.datagrams_sent();
            (
                SimRun {
                    trace,
                    diverged,
                    obs,
                    datagrams,
                    post: vec![],
                },
                sim,
            )
        });
        // runtime teardown with whatever the scenario left alive
        drop(rt);
        let hooks: Vec<_> = std::mem::take(&mut *sim.post.lock().unwrap());
        for h in hooks {
            out.post.extend(h());
        }
        let kept: Vec<_> = std::mem::take(&mut *sim.keep.lock().unwrap());
        drop(kept);
        drop(sim);
        out
    });
    SimOutcome {
        run: r.value,
        panics: r.panics,
        hung: r.hung,
        body_panicked: r.body_panicked,
    }
}

pub struct Judged {
    /// observation class of this execution (for the vacuity statistics)
    pub class: String,
    /// (key, message) for every oracle violation in this execution
    pub violations: Vec<(String, String)>,
    pub sample: Option<Value>,
}

/// Explore every choice sequence of `make` within `bound` deviations. `judge` evaluates the
/// oracle on each execution. Subject panics are reported as violations with key
/// `panic:<location>` unless `judge` is told to handle them itself (`panics_are_violations`).
#[allow(clippy::too_many_arguments)]
pub fn explore_sim<O, M, J>(
    out: &mut UnitResult,
    seed: u64,
    unit: &Value,
    latency_us: u64,
    bound: usize,
    max_exec: u64,
    panics_are_violations: bool,
    make: M,
    mut judge: J,
) where
    O: Send + 'static,
    M: Fn(Arc<Sim>) -> BoxFuture<'static, O> + Send + Sync + Clone + 'static,
    J: FnMut(&O, &[PanicRecord], &[u32]) -> Judged,
{
    if out.poisoned {
        return;
    }
    let mut hung_prefix: Option<Vec<u32>> = None;
    let res = explore(bound, max_exec, |prefix| {
        crate::pool::crumb(|| format!("execution of unit {unit} with choices {prefix:?}"));
        let m = make.clone();
        let o = sim_exec(seed, prefix, latency_us, move |s| m(s));
        out.evaluations += 1;
        let replay = json!({ "unit": unit, "choices": prefix, "seed": seed });
        if o.hung {
            hung_prefix = Some(prefix.to_vec());
            out.violation(
                "hang",
                format!(
                    "execution did not finish within the wall-clock watchdog ({}s): a poll never returns (spin) or the harness dead-locked",
                    wall_watchdog().as_secs()
                ),
                replay,
            );
            return Err("hang".into());
        }
        for p in &o.panics {
            if p.in_harness() {
                return Err(format!(
                    "harness panic: {} at {} (prefix {prefix:?})",
                    p.message, p.location
                ));
            }
        }
        if o.body_panicked && o.panics.is_empty() {
            return Err(format!("execution body panicked without record (prefix {prefix:?})"));
        }
        let Some(run) = o.run else {
            // body panicked outside the harness sources (e.g. inside a library called from the
            // driver): treat as a subject panic
            for p in &o.panics {
                out.violation(
                    panic_key(p),
                    format!("panic `{}` at {}", p.message, p.location),
                    replay.clone(),
                );
            }
            return Ok(ExecTrace {
                trace: vec![],
                diverged: None,
            });
        };
        out.maxi("max_choice_points", run.trace.len() as u64);
        out.maxi("max_datagrams", run.datagrams as u64);
        out.count("datagrams", run.datagrams as u64);
        if panics_are_violations {
            for p in &o.panics {
                out.violation(
                    panic_key(p),
                    format!("panic `{}` at {}", p.message, p.location),
                    replay.clone(),
                );
            }
        }
        let choices: Vec<u32> = run.trace.iter().map(|c| c.chosen).collect();
        let j = judge(&run.obs, &o.panics, &choices);
        out.class(j.class);
        for (k, m) in j.violations.into_iter().chain(run.post.clone()) {
            out.violation(k, m, replay.clone());
        }
        if let Some(s) = j.sample {
            out.sample(s);
        }
        Ok(ExecTrace {
            trace: run.trace,
            diverged: run.diverged,
        })
    });
    // thorough tier: the all-default execution is repeated under further seeds (different TLS
    // randoms, connection ids and select! orders serialise simultaneous events differently)
    let extra: u64 = std::env::var("VERIF_EXTRA_SEEDS").ok().and_then(|s| s.parse().ok()).unwrap_or(0);
    if res.is_ok() && !out.poisoned {
        for k in 1..=extra {
            let m = make.clone();
            let o = sim_exec(seed + k, &[], latency_us, move |s| m(s));
            out.evaluations += 1;
            out.count("executions_under_extra_seeds", 1);
            let replay = json!({ "unit": unit, "choices": [], "seed": seed + k });
            if o.hung {
                out.violation("hang", "execution did not finish within the wall-clock watchdog".to_string(), replay);
                out.poisoned = true;
                break;
            }
            if let Some(run) = o.run {
                if panics_are_violations {
                    for p in &o.panics {
                        out.violation(panic_key(p), format!("panic `{}` at {}", p.message, p.location), replay.clone());
                    }
                }
                let j = judge(&run.obs, &o.panics, &[]);
                out.class(j.class);
                for (k2, m2) in j.violations.into_iter().chain(run.post.clone()) {
                    out.violation(k2, m2, replay.clone());
                }
            }
        }
    }
    match res {
        Ok(stats) => {
            if stats.capped {
                out.caps.push(format!(
                    "execution cap {max_exec} reached in unit {unit} (bound {bound})"
                ));
            }
            if stats.replay_retries > 0 {
                out.count("replay_retries", stats.replay_retries);
            }
            for (d, n) in stats.by_deviations.iter().enumerate() {
                out.count(&format!("executions_with_{d}_deviations"), *n);
            }
        }
        Err(e) if e == "hang" => {
            out.poisoned = true;
            out.caps.push(format!(
                "unit {unit} abandoned after a hang at prefix {:?}",
                hung_prefix.unwrap_or_default()
            ));
        }
        Err(e) => out.machinery_errors.push(format!("unit {unit}: {e}")),
    }
}

pub fn short_loc(loc: &str) -> String {
    // drop the column and any absolute prefix so that the key is stable
    let parts: Vec<&str> = loc.rsplitn(2, ':').collect();
    let no_col = if parts.len() == 2 { parts[1] } else { loc };
    match no_col.find("crates/") {
        Some(i) => no_col[i..].to_string(),
        None => no_col.to_string(),
    }
}

/// Stable identification of a panic site: source file (no line numbers, which move with
/// unrelated edits) plus the start of the message.
pub fn panic_key(p: &PanicRecord) -> String {
    let file = p.location.split(':').next().unwrap_or("");
    let file = match file.find("crates/") {
        Some(i) => &file[i..],
        None => file.rsplit('/').next().unwrap_or(file),
    };
    let msg: String = p
        .message
        .chars()
        .take(48)
        .map(|c| if c.is_ascii_alphanumeric() { c } else { '_' })
        .collect();
    format!("panic:{file}:{msg}")
}
