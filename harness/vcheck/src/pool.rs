//! Worker-process pool. The parent hands out work units (JSON) to `vcheck --worker` children and
//! merges their `UnitResult`s. A worker whose execution thread is stuck (a spin inside one poll
//! cannot be interrupted from inside) reports the hang, marks itself poisoned and exits; the
//! parent replaces it.

use crate::report::UnitResult;
use crate::{Check, Tier};
use serde_json::Value;
use std::io::{BufRead, BufReader, Write};
use std::process::{Command, Stdio};
use std::sync::atomic::{AtomicUsize, Ordering};
use std::sync::{Arc, Mutex};

static LAST_CRUMB: Mutex<Option<std::time::Instant>> = Mutex::new(None);

/// Liveness breadcrumb from a worker: at most one line per second, naming what is being evaluated.
/// The parent treats prolonged silence as a hang of the case named by the last crumb.
pub fn crumb(text: impl FnOnce() -> String) {
    let mut g = LAST_CRUMB.lock().unwrap();
    let now = std::time::Instant::now();
    if g.map(|t| now.duration_since(t).as_millis() >= 1000).unwrap_or(true) {
        *g = Some(now);
        drop(g);
        let t = text();
        let t: String = t.chars().take(300).map(|c| if c == '\n' { ' ' } else { c }).collect();
        let mut so = std::io::stdout().lock();
        let _ = writeln!(so, "CRUMB {t}");
        let _ = so.flush();
    }
}

pub fn stall_limit() -> std::time::Duration {
    std::time::Duration::from_secs(std::env::var("VERIF_STALL_S").ok().and_then(|s| s.parse().ok()).unwrap_or(180))
}

pub fn worker_main(check: &dyn Check, tier: Tier) {
    let stdin = std::io::stdin();
    let mut line = String::new();
    loop {
        line.clear();
        if stdin.lock().read_line(&mut line).unwrap_or(0) == 0 {
            break;
        }
        let unit: Value = match serde_json::from_str(line.trim()) {
            Ok(v) => v,
            Err(_) => break,
        };
        let mut out = UnitResult::default();
        let r = std::panic::catch_unwind(std::panic::AssertUnwindSafe(|| {
            check.run_unit(tier, &unit, &mut out)
        }));
        if let Err(p) = r {
            let msg = crate::exec::panic_message(&p);
            out.machinery_errors
                .push(format!("harness panicked in unit {unit}: {msg}"));
        }
        let poisoned = out.poisoned;
        let text = serde_json::to_string(&out).unwrap();
        let mut so = std::io::stdout().lock();
        let _ = writeln!(so, "RESULT {text}");
        let _ = so.flush();
        drop(so);
        if poisoned {
            // A stuck thread cannot be joined; leave without running destructors.
            std::process::exit(3);
        }
    }
}

pub fn run_pool(check_id: &str, tier: Tier, units: Vec<Value>, jobs: usize) -> UnitResult {
    let exe = std::env::current_exe().expect("current_exe");
    let next = Arc::new(AtomicUsize::new(0));
    let units = Arc::new(units);
    let total = Arc::new(Mutex::new(UnitResult::default()));
    let jobs = jobs.min(units.len()).max(1);
    // Each hang costs a full watchdog period. After a few of them the verdict is settled (a hang
    // is a violation), so the remaining units are not started.
    let hangs = Arc::new(AtomicUsize::new(0));
    let max_hangs: usize = std::env::var("VERIF_MAX_HANGS").ok().and_then(|s| s.parse().ok()).unwrap_or(3);
    let mut handles = vec![];
    for _ in 0..jobs {
        let (exe, next, units, total, hangs) = (exe.clone(), next.clone(), units.clone(), total.clone(), hangs.clone());
        let check_id = check_id.to_string();
        handles.push(std::thread::spawn(move || {
            let spawn = || {
                Command::new(&exe)
                    .arg("--worker")
                    .arg(&check_id)
                    .arg(tier.as_str())
                    .stdin(Stdio::piped())
                    .stdout(Stdio::piped())
                    .stderr(Stdio::inherit())
                    .spawn()
                    .expect("spawn worker")
            };
            // stdout of the worker is read by a helper thread so that silence can be timed
            let start_reader = |out: std::process::ChildStdout| {
                let (tx, rx) = std::sync::mpsc::channel::<String>();
                std::thread::spawn(move || {
                    let mut r = BufReader::new(out);
                    let mut line = String::new();
                    loop {
                        line.clear();
                        match r.read_line(&mut line) {
                            Ok(0) | Err(_) => break,
                            Ok(_) => {
                                if tx.send(line.clone()).is_err() {
                                    break;
                                }
                            }
                        }
                    }
                });
                rx
            };
            let mut child = spawn();
            let mut cin = child.stdin.take().unwrap();
            let mut lines = start_reader(child.stdout.take().unwrap());
            loop {
                if hangs.load(Ordering::SeqCst) >= max_hangs {
                    let i = next.swap(units.len(), Ordering::SeqCst);
                    if i < units.len() {
                        total.lock().unwrap().caps.push(format!("stopped after {max_hangs} hung executions: units {i}..{} not run", units.len()));
                    }
                    break;
                }
                let i = next.fetch_add(1, Ordering::SeqCst);
                if i >= units.len() {
                    break;
                }
                let unit = &units[i];
                let ok = writeln!(cin, "{}", serde_json::to_string(unit).unwrap()).is_ok() && cin.flush().is_ok();
                let mut result: Option<UnitResult> = None;
                let mut last_crumb = String::new();
                let mut stalled = false;
                if ok {
                    loop {
                        match lines.recv_timeout(stall_limit()) {
                            Err(std::sync::mpsc::RecvTimeoutError::Timeout) => {
                                stalled = true;
                                break;
                            }
                            Err(_) => break,
                            Ok(line) => {
                                if let Some(rest) = line.strip_prefix("RESULT ") {
                                    match serde_json::from_str::<UnitResult>(rest.trim()) {
                                        Ok(r) => result = Some(r),
                                        Err(e) => {
                                            let mut r = UnitResult::default();
                                            r.machinery_errors.push(format!("bad worker result: {e}"));
                                            result = Some(r);
                                        }
                                    }
                                    break;
                                } else if let Some(c) = line.strip_prefix("CRUMB ") {
                                    last_crumb = c.trim().to_string();
                                }
                                // anything else on stdout is noise from the subject; ignore
                            }
                        }
                    }
                }
                let respawn;
                match result {
                    Some(r) => {
                        respawn = r.poisoned;
                        if r.poisoned {
                            hangs.fetch_add(1, Ordering::SeqCst);
                        }
                        total.lock().unwrap().merge(r);
                    }
                    None if stalled => {
                        let _ = child.kill();
                        let mut r = UnitResult::default();
                        r.evaluations += 1;
                        r.violation(
                            "hang",
                            format!(
                                "no sign of life from the worker for {} s while evaluating `{}`: the subject spins or blocks without returning",
                                stall_limit().as_secs(),
                                if last_crumb.is_empty() { unit.to_string() } else { last_crumb.clone() }
                            ),
                            serde_json::json!({"unit": unit, "last_crumb": last_crumb}),
                        );
                        r.caps.push(format!("unit {unit} abandoned after a stall"));
                        total.lock().unwrap().merge(r);
                        hangs.fetch_add(1, Ordering::SeqCst);
                        respawn = true;
                    }
                    None => {
                        let status = child.wait().ok();
                        let mut r = UnitResult::default();
                        if let Some(key) = unit.get("on_death").and_then(|k| k.as_str()) {
                            // this unit feeds hostile input to the subject under a memory cap:
                            // the process dying is the subject aborting, i.e. a verdict
                            r.violation(key, format!("the process running unit {unit} died (status {status:?}) while evaluating `{last_crumb}`: the subject aborted"), serde_json::json!({"unit": unit, "last_crumb": last_crumb}));
                            r.evaluations += 1;
                        } else {
                            r.machinery_errors.push(format!("worker died without a result on unit {unit} (status {status:?}, ok={ok}, last crumb `{last_crumb}`)"));
                        }
                        total.lock().unwrap().merge(r);
                        respawn = true;
                    }
                }
                if respawn {
                    let _ = child.kill();
                    let _ = child.wait();
                    child = spawn();
                    cin = child.stdin.take().unwrap();
                    lines = start_reader(child.stdout.take().unwrap());
                }
            }
            drop(cin);
            let _ = child.wait();
        }));
    }
    for h in handles {
        let _ = h.join();
    }
    Arc::try_unwrap(total).unwrap().into_inner().unwrap()
}
