//! Worker-process pool. The parent hands out work units (JSON) to `vcheck --worker` children and
//! merges their `UnitResult`s. A worker whose execution thread is stuck (a spin inside one poll
//! cannot be interrupted from inside) reports the hang, marks itself poisoned and exits; the
//! parent replaces it.

use crate::report::UnitResult;
use crate::{Check, Tier};
use serde_json::Value;
use std::io::{BufRead, BufReader, Write};
use std::process::{Command, Stdio};
use std::sync::atomic::{AtomicUsize, Ordering};
use std::sync::{Arc, Mutex};

pub fn worker_main(check: &dyn Check, tier: Tier) {
    let stdin = std::io::stdin();
    let mut line = String::new();
    loop {
        line.clear();
        if stdin.lock().read_line(&mut line).unwrap_or(0) == 0 {
            break;
        }
        let unit: Value = match serde_json::from_str(line.trim()) {
            Ok(v) => v,
            Err(_) => break,
        };
        let mut out = UnitResult::default();
        let r = std::panic::catch_unwind(std::panic::AssertUnwindSafe(|| {
            check.run_unit(tier, &unit, &mut out)
        }));
        if let Err(p) = r {
            let msg = crate::exec::panic_message(&p);
            out.machinery_errors
                .push(format!("harness panicked in unit {unit}: {msg}"));
        }
        let poisoned = out.poisoned;
        let text = serde_json::to_string(&out).unwrap();
        let mut so = std::io::stdout().lock();
        let _ = writeln!(so, "RESULT {text}");
        let _ = so.flush();
        drop(so);
        if poisoned {
            // A stuck thread cannot be joined; leave without running destructors.
            std::process::exit(3);
        }
    }
}

pub fn run_pool(check_id: &str, tier: Tier, units: Vec<Value>, jobs: usize) -> UnitResult {
    let exe = std::env::current_exe().expect("current_exe");
    let next = Arc::new(AtomicUsize::new(0));
    let units = Arc::new(units);
    let total = Arc::new(Mutex::new(UnitResult::default()));
    let jobs = jobs.min(units.len()).max(1);
    let mut handles = vec![];
    for _ in 0..jobs {
        let (exe, next, units, total) = (exe.clone(), next.clone(), units.clone(), total.clone());
        let check_id = check_id.to_string();
        handles.push(std::thread::spawn(move || {
            let spawn = || {
                Command::new(&exe)
                    .arg("--worker")
                    .arg(&check_id)
                    .arg(tier.as_str())
                    .stdin(Stdio::piped())
                    .stdout(Stdio::piped())
                    .stderr(Stdio::inherit())
                    .spawn()
                    .expect("spawn worker")
            };
            let mut child = spawn();
            let mut cin = child.stdin.take().unwrap();
            let mut cout = BufReader::new(child.stdout.take().unwrap());
            loop {
                let i = next.fetch_add(1, Ordering::SeqCst);
                if i >= units.len() {
                    break;
                }
                let unit = &units[i];
                let mut ok = writeln!(cin, "{}", serde_json::to_string(unit).unwrap()).is_ok()
                    && cin.flush().is_ok();
                let mut result: Option<UnitResult> = None;
                if ok {
                    let mut line = String::new();
                    loop {
                        line.clear();
                        match cout.read_line(&mut line) {
                            Ok(0) | Err(_) => {
                                ok = false;
                                break;
                            }
                            Ok(_) => {
                                if let Some(rest) = line.strip_prefix("RESULT ") {
                                    match serde_json::from_str::<UnitResult>(rest.trim()) {
                                        Ok(r) => result = Some(r),
                                        Err(e) => {
                                            let mut r = UnitResult::default();
                                            r.machinery_errors
                                                .push(format!("bad worker result: {e}"));
                                            result = Some(r);
                                        }
                                    }
                                    break;
                                }
                                // anything else on stdout is noise from the subject; ignore
                            }
                        }
                    }
                }
                let respawn;
                match result {
                    Some(r) => {
                        respawn = r.poisoned;
                        total.lock().unwrap().merge(r);
                    }
                    None => {
                        let status = child.wait().ok();
                        let mut r = UnitResult::default();
                        if let Some(key) = unit.get("on_death").and_then(|k| k.as_str()) {
                            // this unit feeds hostile input to the subject under a memory cap:
                            // the process dying is the subject aborting, i.e. a verdict
                            r.violation(key, format!("the process running unit {unit} died (status {status:?}): the subject aborted"), serde_json::json!({"unit": unit}));
                            r.evaluations += 1;
                        } else {
                            r.machinery_errors.push(format!(
                                "worker died without a result on unit {unit} (status {status:?}, ok={ok})"
                            ));
                        }
                        total.lock().unwrap().merge(r);
                        respawn = true;
                    }
                }
                if respawn {
                    let _ = child.kill();
                    let _ = child.wait();
                    child = spawn();
                    cin = child.stdin.take().unwrap();
                    cout = BufReader::new(child.stdout.take().unwrap());
                }
            }
            drop(cin);
            let _ = child.wait();
        }));
    }
    for h in handles {
        let _ = h.join();
    }
    Arc::try_unwrap(total).unwrap().into_inner().unwrap()
}
