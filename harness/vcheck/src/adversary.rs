//! A raw QUIC endpoint on the fabric with its own (possibly lying) TLS identity: the hostile peer.

use crate::world::{key_bytes, Sim};
use rustls::pki_types::{CertificateDer, PrivateKeyDer, PrivatePkcs8KeyDer, ServerName, UnixTime};
use std::net::SocketAddr;
use std::sync::{Arc, Mutex};

/// PKCS#8 v1 DER of the Ed25519 private key `[key; 32]`.
pub fn ed25519_pkcs8(key: u8) -> PrivateKeyDer<'static> {
    // fixed PKCS#8 v1 prefix for Ed25519 followed by the 32-byte seed
    let mut v = vec![
        0x30, 0x2e, 0x02, 0x01, 0x00, 0x30, 0x05, 0x06, 0x03, 0x2b, 0x65, 0x70, 0x04, 0x22, 0x04,
        0x20,
    ];
    v.extend_from_slice(&key_bytes(key));
    PrivateKeyDer::Pkcs8(PrivatePkcs8KeyDer::from(v))
}

pub fn signing_key(key: &PrivateKeyDer<'static>) -> Arc<dyn rustls::sign::SigningKey> {
    rustls::crypto::ring::sign::any_supported_type(key).expect("signing key")
}

/// The certificate the real anemo code issues for this key and name.
pub fn anemo_cert(key: u8, name: &str) -> CertificateDer<'static> {
    CertificateDer::from(anemo::verif::certificate_for(key_bytes(key), name).expect("cert"))
}

#[derive(Debug)]
struct FixedClientCert(Option<Arc<rustls::sign::CertifiedKey>>);
impl rustls::client::ResolvesClientCert for FixedClientCert {
    fn resolve(
        &self,
        _hints: &[&[u8]],
        _schemes: &[rustls::SignatureScheme],
    ) -> Option<Arc<rustls::sign::CertifiedKey>> {
        self.0.clone()
    }
    fn has_certs(&self) -> bool {
        self.0.is_some()
    }
}

#[derive(Debug)]
pub struct FixedServerCert {
    pub key: Arc<rustls::sign::CertifiedKey>,
    pub seen_sni: Mutex<Vec<Option<String>>>,
}
impl rustls::server::ResolvesServerCert for FixedServerCert {
    fn resolve(
        &self,
        hello: rustls::server::ClientHello<'_>,
    ) -> Option<Arc<rustls::sign::CertifiedKey>> {
        self.seen_sni
            .lock()
            .unwrap()
            .push(hello.server_name().map(|s| s.to_string()));
        Some(self.key.clone())
    }
}

/// Accepts any server certificate and any handshake signature (the adversary does not care).
#[derive(Debug)]
struct AcceptAnyServer;
impl rustls::client::danger::ServerCertVerifier for AcceptAnyServer {
    fn verify_server_cert(
        &self,
        _e: &CertificateDer<'_>,
        _i: &[CertificateDer<'_>],
        _n: &ServerName<'_>,
        _o: &[u8],
        _now: UnixTime,
    ) -> Result<rustls::client::danger::ServerCertVerified, rustls::Error> {
        Ok(rustls::client::danger::ServerCertVerified::assertion())
    }
    fn verify_tls12_signature(
        &self,
        _m: &[u8],
        _c: &CertificateDer<'_>,
        _d: &rustls::DigitallySignedStruct,
    ) -> Result<rustls::client::danger::HandshakeSignatureValid, rustls::Error> {
        Ok(rustls::client::danger::HandshakeSignatureValid::assertion())
    }
    fn verify_tls13_signature(
        &self,
        _m: &[u8],
        _c: &CertificateDer<'_>,
        _d: &rustls::DigitallySignedStruct,
    ) -> Result<rustls::client::danger::HandshakeSignatureValid, rustls::Error> {
        Ok(rustls::client::danger::HandshakeSignatureValid::assertion())
    }
    fn supported_verify_schemes(&self) -> Vec<rustls::SignatureScheme> {
        rustls::crypto::ring::default_provider()
            .signature_verification_algorithms
            .supported_schemes()
    }
}

/// Accepts any (or no) client certificate.
#[derive(Debug)]
struct AcceptAnyClient;
impl rustls::server::danger::ClientCertVerifier for AcceptAnyClient {
    fn offer_client_auth(&self) -> bool {
        true
    }
    fn client_auth_mandatory(&self) -> bool {
        false
    }
    fn root_hint_subjects(&self) -> &[rustls::DistinguishedName] {
        &[]
    }
    fn verify_client_cert(
        &self,
        _e: &CertificateDer<'_>,
        _i: &[CertificateDer<'_>],
        _now: UnixTime,
    ) -> Result<rustls::server::danger::ClientCertVerified, rustls::Error> {
        Ok(rustls::server::danger::ClientCertVerified::assertion())
    }
    fn verify_tls12_signature(
        &self,
        _m: &[u8],
        _c: &CertificateDer<'_>,
        _d: &rustls::DigitallySignedStruct,
    ) -> Result<rustls::client::danger::HandshakeSignatureValid, rustls::Error> {
        Ok(rustls::client::danger::HandshakeSignatureValid::assertion())
    }
    fn verify_tls13_signature(
        &self,
        _m: &[u8],
        _c: &CertificateDer<'_>,
        _d: &rustls::DigitallySignedStruct,
    ) -> Result<rustls::client::danger::HandshakeSignatureValid, rustls::Error> {
        Ok(rustls::client::danger::HandshakeSignatureValid::assertion())
    }
    fn supported_verify_schemes(&self) -> Vec<rustls::SignatureScheme> {
        rustls::crypto::ring::default_provider()
            .signature_verification_algorithms
            .supported_schemes()
    }
}

/// What the adversary presents: a certificate chain and the key it signs the handshake with
/// (which need not belong to the certificate).
#[derive(Clone)]
pub struct Identity {
    pub chain: Vec<CertificateDer<'static>>,
    pub signer: Option<Arc<dyn rustls::sign::SigningKey>>,
}

impl Identity {
    /// Honest: certificate of `key` for `name`, signed with `key`.
    pub fn honest(key: u8, name: &str) -> Self {
        Identity {
            chain: vec![anemo_cert(key, name)],
            signer: Some(signing_key(&ed25519_pkcs8(key))),
        }
    }
    /// X's certificate replayed, handshake signed with Y's key.
    pub fn replayed(cert_of: u8, name: &str, signing_with: u8) -> Self {
        Identity {
            chain: vec![anemo_cert(cert_of, name)],
            signer: Some(signing_key(&ed25519_pkcs8(signing_with))),
        }
    }
    pub fn none() -> Self {
        Identity {
            chain: vec![],
            signer: None,
        }
    }
    fn certified(&self) -> Option<Arc<rustls::sign::CertifiedKey>> {
        self.signer
            .as_ref()
            .map(|s| Arc::new(rustls::sign::CertifiedKey::new(self.chain.clone(), s.clone())))
    }
}

pub fn client_config(id: &Identity) -> quinn::ClientConfig {
    client_config_sni(id, true)
}

/// `send_sni = false`: the hello carries no server-name extension at all.
pub fn client_config_sni(id: &Identity, send_sni: bool) -> quinn::ClientConfig {
    let mut crypto = rustls::ClientConfig::builder_with_provider(Arc::new(
        rustls::crypto::ring::default_provider(),
    ))
    .with_protocol_versions(&[&rustls::version::TLS13])
    .unwrap()
    .dangerous()
    .with_custom_certificate_verifier(Arc::new(AcceptAnyServer))
    .with_client_cert_resolver(Arc::new(FixedClientCert(id.certified())));
    crypto.enable_sni = send_sni;
    quinn::ClientConfig::new(Arc::new(
        quinn::crypto::rustls::QuicClientConfig::try_from(crypto).unwrap(),
    ))
}

pub fn server_config(id: &Identity) -> (quinn::ServerConfig, Arc<FixedServerCert>) {
    let resolver = Arc::new(FixedServerCert {
        key: id.certified().expect("a server needs an identity"),
        seen_sni: Mutex::new(vec![]),
    });
    let crypto = rustls::ServerConfig::builder_with_provider(Arc::new(
        rustls::crypto::ring::default_provider(),
    ))
    .with_protocol_versions(&[&rustls::version::TLS13])
    .unwrap()
    .with_client_cert_verifier(Arc::new(AcceptAnyClient))
    .with_cert_resolver(resolver.clone());
    let cfg = quinn::ServerConfig::with_crypto(Arc::new(
        quinn::crypto::rustls::QuicServerConfig::try_from(crypto).unwrap(),
    ));
    (cfg, resolver)
}

pub struct Adversary {
    pub endpoint: quinn::Endpoint,
    pub node: usize,
    pub addr: SocketAddr,
    pub sni_seen: Option<Arc<FixedServerCert>>,
}

impl Adversary {
    /// Attach a raw endpoint to the fabric. With `server`, it also accepts connections.
    pub fn new(sim: &Sim, server: Option<&Identity>) -> Adversary {
        let real = std::net::UdpSocket::bind("127.0.0.1:0").unwrap();
        let addr = real.local_addr().unwrap();
        let (sock, rt) = sim.fabric.attach(real).unwrap();
        let node = sim.fabric.node_of(addr).unwrap();
        let (server_cfg, sni_seen) = match server {
            Some(id) => {
                let (c, r) = server_config(id);
                (Some(c), Some(r))
            }
            None => (None, None),
        };
        let endpoint = quinn::Endpoint::new_with_abstract_socket(
            quinn::EndpointConfig::default(),
            server_cfg,
            sock,
            rt,
        )
        .unwrap();
        Adversary {
            endpoint,
            node,
            addr,
            sni_seen,
        }
    }

    pub async fn dial(
        &self,
        to: SocketAddr,
        sni: &str,
        id: &Identity,
    ) -> Result<quinn::Connection, String> {
        // "<none>": a hello without a server-name extension
        let c = if sni == "<none>" { self.endpoint.connect_with(client_config_sni(id, false), to, "unnamed") } else { self.endpoint.connect_with(client_config(id), to, sni) }
            .map_err(|e| format!("connect: {e}"))?;
        c.await.map_err(|e| format!("handshake: {e}"))
    }

    /// Wait for the anemo acknowledgement (8-byte version frame on a uni stream).
    pub async fn read_ack(conn: &quinn::Connection) -> Result<Vec<u8>, String> {
        let mut s = conn.accept_uni().await.map_err(|e| format!("accept_uni: {e}"))?;
        let mut buf = [0u8; 8];
        s.read_exact(&mut buf).await.map_err(|e| format!("read: {e}"))?;
        Ok(buf.to_vec())
    }

    /// Send the anemo acknowledgement as a listener would.
    pub async fn send_ack(conn: &quinn::Connection) -> Result<(), String> {
        let mut s = conn.open_uni().await.map_err(|e| format!("open_uni: {e}"))?;
        s.write_all(b"anemo\x00\x01\x00").await.map_err(|e| format!("write: {e}"))?;
        s.finish().map_err(|e| format!("finish: {e}"))?;
        let _ = s.stopped().await;
        Ok(())
    }
}

/// Encode a well-formed anemo request exactly as the wire format prescribes (reference encoder).
pub fn encode_request(route: &str, headers: &[(&str, &str)], body: &[u8]) -> Vec<u8> {
    let mut out = b"anemo\x00\x01\x00".to_vec();
    let mut h = vec![];
    h.extend_from_slice(&(route.len() as u64).to_le_bytes());
    h.extend_from_slice(route.as_bytes());
    h.extend_from_slice(&(headers.len() as u64).to_le_bytes());
    for (k, v) in headers {
        h.extend_from_slice(&(k.len() as u64).to_le_bytes());
        h.extend_from_slice(k.as_bytes());
        h.extend_from_slice(&(v.len() as u64).to_le_bytes());
        h.extend_from_slice(v.as_bytes());
    }
    out.extend_from_slice(&(h.len() as u32).to_be_bytes());
    out.extend_from_slice(&h);
    out.extend_from_slice(&(body.len() as u32).to_be_bytes());
    out.extend_from_slice(body);
    out
}

/// Decode a response written by anemo (reference decoder): (status, headers, body).
pub fn decode_response(bytes: &[u8]) -> Result<(u16, Vec<(String, String)>, Vec<u8>), String> {
    if bytes.len() < 8 || &bytes[..5] != b"anemo" || bytes[5..8] != [0, 1, 0] {
        return Err("bad preamble".into());
    }
    let mut p = 8;
    let take = |p: &mut usize, n: usize| -> Result<&[u8], String> {
        if *p + n > bytes.len() {
            return Err("truncated".into());
        }
        let s = &bytes[*p..*p + n];
        *p += n;
        Ok(s)
    };
    let hl = u32::from_be_bytes(take(&mut p, 4)?.try_into().unwrap()) as usize;
    let h = take(&mut p, hl)?.to_vec();
    let bl = u32::from_be_bytes(take(&mut p, 4)?.try_into().unwrap()) as usize;
    let body = take(&mut p, bl)?.to_vec();
    if h.len() < 10 {
        return Err("short header".into());
    }
    let status = u16::from_le_bytes([h[0], h[1]]);
    let n = u64::from_le_bytes(h[2..10].try_into().unwrap()) as usize;
    let mut q = 10;
    let mut headers = vec![];
    for _ in 0..n {
        let mut s = [String::new(), String::new()];
        for item in &mut s {
            if q + 8 > h.len() {
                return Err("short header map".into());
            }
            let l = u64::from_le_bytes(h[q..q + 8].try_into().unwrap()) as usize;
            q += 8;
            if q + l > h.len() {
                return Err("short header map".into());
            }
            *item = String::from_utf8_lossy(&h[q..q + l]).to_string();
            q += l;
        }
        let [k, v] = s;
        headers.push((k, v));
    }
    Ok((status, headers, body))
}
