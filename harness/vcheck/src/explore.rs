//! Choice points and deviation-bounded stateless exploration.
//!
//! An *execution* is a deterministic function of a finite choice sequence. Every decision the
//! driver or the environment (fabric) takes asks the `Chooser`; answer 0 is the default. The
//! explorer runs the all-default execution, then, for every choice point of that execution and
//! every alternative answer, the execution "same prefix, this alternative, defaults afterwards",
//! recursing while the number of non-default answers stays within the bound (iterative context
//! bounding applied to an event loop).

use std::sync::{Arc, Mutex};

#[derive(Clone, Debug)]
pub struct ChoicePoint {
    pub tag: String,
    pub menu: u32,
    pub chosen: u32,
    /// Hash of everything observed before this point (replay discipline).
    pub obs_hash: u64,
}

#[derive(Debug, Default)]
pub struct Chooser {
    prefix: Vec<u32>,
    pub trace: Vec<ChoicePoint>,
    pub obs_hash: u64,
    /// Set when the prefix asked for an answer outside the menu (replay divergence).
    pub diverged: Option<String>,
}

pub type SharedChooser = Arc<Mutex<Chooser>>;

impl Chooser {
    pub fn new(prefix: &[u32]) -> Self {
        Chooser {
            prefix: prefix.to_vec(),
            trace: Vec::new(),
            obs_hash: 0xcbf29ce484222325,
            diverged: None,
        }
    }
    pub fn shared(prefix: &[u32]) -> SharedChooser {
        Arc::new(Mutex::new(Self::new(prefix)))
    }
    /// Ask for a decision with `menu` alternatives (0 = default).
    pub fn choose(&mut self, tag: &str, menu: u32) -> u32 {
        let pos = self.trace.len();
        let mut c = if pos < self.prefix.len() {
            self.prefix[pos]
        } else {
            0
        };
        if c >= menu {
            if self.diverged.is_none() {
                self.diverged = Some(format!(
                    "choice {pos} ({tag}): prefix asks for {c} but the menu has {menu} entries"
                ));
            }
            c = 0;
        }
        self.trace.push(ChoicePoint {
            tag: tag.to_string(),
            menu,
            chosen: c,
            obs_hash: self.obs_hash,
        });
        c
    }
    /// Fold an observation into the running hash (FNV-1a over the bytes).
    pub fn observe(&mut self, bytes: &[u8]) {
        let mut h = self.obs_hash;
        for b in bytes {
            h ^= *b as u64;
            h = h.wrapping_mul(0x100000001b3);
        }
        h ^= 0xff;
        h = h.wrapping_mul(0x100000001b3);
        self.obs_hash = h;
    }
    pub fn choices(&self) -> Vec<u32> {
        self.trace.iter().map(|c| c.chosen).collect()
    }
    pub fn prefix_len(&self) -> usize {
        self.prefix.len()
    }
}

pub fn fnv(bytes: &[u8]) -> u64 {
    let mut h: u64 = 0xcbf29ce484222325;
    for b in bytes {
        h ^= *b as u64;
        h = h.wrapping_mul(0x100000001b3);
    }
    h
}

/// What one execution reports back to the explorer.
pub struct ExecTrace {
    pub trace: Vec<ChoicePoint>,
    pub diverged: Option<String>,
}

#[derive(Default, Debug, Clone)]
pub struct ExploreStats {
    pub executions: u64,
    pub max_choice_points: usize,
    pub by_deviations: Vec<u64>,
    pub capped: bool,
    pub replay_retries: u64,
}

/// Deviation-bounded exploration. `run(prefix)` executes once and returns the trace of choice
/// points; it returns `Err` to abort the exploration (machinery error or hang).
/// `filter(tag)` says whether a choice point may be deviated at.
pub fn explore<R>(
    bound: usize,
    max_executions: u64,
    mut run: R,
) -> Result<ExploreStats, String>
where
    R: FnMut(&[u32]) -> Result<ExecTrace, String>,
{
    let mut stats = ExploreStats::default();
    stats.by_deviations = vec![0; bound + 1];
    // Explicit stack of (prefix, parent trace for replay check).
    let mut stack: Vec<(Vec<u32>, Option<Arc<Vec<ChoicePoint>>>)> = vec![(vec![], None)];
    while let Some((prefix, parent)) = stack.pop() {
        if stats.executions >= max_executions {
            stats.capped = true;
            break;
        }
        // A replayed prefix must reproduce its parent up to the deviation point. The executions are
        // deterministic by construction; should an unowned source of nondeterminism ever slip in,
        // one re-execution is attempted before the divergence is declared (a machinery error).
        let mut attempt = 0;
        let x = loop {
            attempt += 1;
            let x = run(&prefix)?;
            stats.executions += 1;
            let mut problem: Option<String> = None;
            if let Some(d) = &x.diverged {
                problem = Some(format!("replay divergence: {d} (prefix {prefix:?})"));
            } else if x.trace.len() < prefix.len() {
                problem = Some(format!(
                    "replay divergence: execution ended after {} choice points but the prefix has {} (prefix {prefix:?})",
                    x.trace.len(),
                    prefix.len()
                ));
            } else if let Some(parent) = &parent {
                let upto = prefix.len().saturating_sub(1);
                for j in 0..=upto.min(parent.len().saturating_sub(1)) {
                    let (a, b) = (&parent[j], &x.trace[j]);
                    if a.tag != b.tag || a.menu != b.menu || a.obs_hash != b.obs_hash {
                        problem = Some(format!(
                            "replay divergence at choice point {j}: parent ({}, menu {}, obs {:x}) vs child ({}, menu {}, obs {:x}); prefix {prefix:?}",
                            a.tag, a.menu, a.obs_hash, b.tag, b.menu, b.obs_hash
                        ));
                        break;
                    }
                }
            }
            match problem {
                None => break x,
                Some(p) if attempt >= 3 => return Err(p),
                Some(_) => {
                    stats.replay_retries += 1;
                    continue;
                }
            }
        };
        let devs = prefix.iter().filter(|c| **c != 0).count();
        stats.by_deviations[devs.min(bound)] += 1;
        stats.max_choice_points = stats.max_choice_points.max(x.trace.len());
        if devs >= bound {
            continue;
        }
        let trace = Arc::new(x.trace);
        // Push in reverse so that the earliest deviation is explored first.
        for i in (prefix.len()..trace.len()).rev() {
            let p = &trace[i];
            for alt in (1..p.menu).rev() {
                let mut child: Vec<u32> = trace[..i].iter().map(|c| c.chosen).collect();
                child.push(alt);
                stack.push((child, Some(trace.clone())));
            }
        }
    }
    Ok(stats)
}

/// All permutations of 0..n (n <= 6), in lexicographic order.
pub fn permutations(n: usize) -> Vec<Vec<usize>> {
    fn rec(cur: &mut Vec<usize>, used: &mut Vec<bool>, n: usize, out: &mut Vec<Vec<usize>>) {
        if cur.len() == n {
            out.push(cur.clone());
            return;
        }
        for i in 0..n {
            if !used[i] {
                used[i] = true;
                cur.push(i);
                rec(cur, used, n, out);
                cur.pop();
                used[i] = false;
            }
        }
    }
    let mut out = vec![];
    rec(&mut vec![], &mut vec![false; n], n, &mut out);
    out
}
