//! Certificate construction for adversarial scenarios, and a reference verifier written against
//! ring + x509-parser only.

use crate::adversary::ed25519_pkcs8;
use crate::world::key_bytes;
use rustls::pki_types::{CertificateDer, PrivateKeyDer, PrivatePkcs8KeyDer};

pub fn ring_key(key: u8) -> ring::signature::Ed25519KeyPair {
    ring::signature::Ed25519KeyPair::from_seed_unchecked(&key_bytes(key)).unwrap()
}

#[derive(Clone, Debug, Default)]
pub struct CertOpts {
    pub not_before: Option<(i32, u8, u8)>,
    pub not_after: Option<(i32, u8, u8)>,
    /// None: no EKU extension; Some(list) with "server" / "client"
    pub eku: Option<Vec<&'static str>>,
}

/// A self-signed Ed25519 certificate for `[key; 32]` built with rcgen like anemo does, but with
/// control over validity and extended key usage.
pub fn ed25519_cert(key: u8, name: &str, opts: &CertOpts) -> CertificateDer<'static> {
    let kp = rcgen::KeyPair::from_der_and_sign_algo(&ed25519_pkcs8(key), &rcgen::PKCS_ED25519).unwrap();
    let mut p = rcgen::CertificateParams::new(vec![name.to_string()]).unwrap();
    if let Some((y, m, d)) = opts.not_before {
        p.not_before = rcgen::date_time_ymd(y, m, d);
    }
    if let Some((y, m, d)) = opts.not_after {
        p.not_after = rcgen::date_time_ymd(y, m, d);
    }
    if let Some(list) = &opts.eku {
        p.extended_key_usages = list
            .iter()
            .map(|s| if *s == "server" { rcgen::ExtendedKeyUsagePurpose::ServerAuth } else { rcgen::ExtendedKeyUsagePurpose::ClientAuth })
            .collect();
    }
    p.self_signed(&kp).unwrap().der().to_owned()
}

/// A self-signed Ed25519 certificate for `[key; 32]` that names no network at all:
/// `ip_only` = false: no subject alternative name; true: one IP-address entry only.
pub fn ed25519_cert_nameless(key: u8, ip_only: bool) -> CertificateDer<'static> {
    let kp = rcgen::KeyPair::from_der_and_sign_algo(&ed25519_pkcs8(key), &rcgen::PKCS_ED25519).unwrap();
    let mut p = rcgen::CertificateParams::new(Vec::<String>::new()).unwrap();
    if ip_only {
        p.subject_alt_names = vec![rcgen::SanType::IpAddress(std::net::IpAddr::V4(std::net::Ipv4Addr::new(127, 0, 0, 1)))];
    }
    p.self_signed(&kp).unwrap().der().to_owned()
}

/// A self-signed Ed25519 certificate for `[key; 32]` whose subject COMMON NAME is `cn` while its
/// subject alternative name is `san` (or absent): names a network only where it does not count.
pub fn ed25519_cert_with_cn(key: u8, san: Option<&str>, cn: &str) -> CertificateDer<'static> {
    let kp = rcgen::KeyPair::from_der_and_sign_algo(&ed25519_pkcs8(key), &rcgen::PKCS_ED25519).unwrap();
    let mut p = rcgen::CertificateParams::new(san.map(|s| vec![s.to_string()]).unwrap_or_default()).unwrap();
    p.distinguished_name = rcgen::DistinguishedName::new();
    p.distinguished_name.push(rcgen::DnType::CommonName, cn);
    p.self_signed(&kp).unwrap().der().to_owned()
}

/// A self-signed ECDSA P-256 certificate with a fresh key: (certificate, PKCS#8 key).
pub fn ecdsa_cert(name: &str) -> (CertificateDer<'static>, PrivateKeyDer<'static>) {
    let kp = rcgen::KeyPair::generate_for(&rcgen::PKCS_ECDSA_P256_SHA256).unwrap();
    let p = rcgen::CertificateParams::new(vec![name.to_string()]).unwrap();
    let cert = p.self_signed(&kp).unwrap().der().to_owned();
    (cert, PrivateKeyDer::Pkcs8(PrivatePkcs8KeyDer::from(kp.serialize_der())))
}

/// `cert`'s to-be-signed part re-signed with the Ed25519 key `[signer; 32]` (the certificate keeps
/// its subject public key: a forgery "naming" that identity).
pub fn resign(cert: &CertificateDer<'_>, signer: u8) -> CertificateDer<'static> {
    use x509_parser::prelude::FromDer;
    let (_, parsed) = x509_parser::certificate::X509Certificate::from_der(cert.as_ref()).unwrap();
    let tbs = parsed.tbs_certificate.as_ref();
    let sig = ring_key(signer).sign(tbs);
    let mut der = cert.as_ref().to_vec();
    let n = der.len();
    // for Ed25519 the signature BIT STRING is the last 64 bytes of the certificate
    der[n - 64..].copy_from_slice(sig.as_ref());
    CertificateDer::from(der)
}

#[derive(Debug, Clone, PartialEq)]
pub struct RefVerdict {
    pub parses: bool,
    pub ed25519_self_signed: bool,
    pub in_validity: bool,
    pub names: Vec<String>,
    pub spki_key: Option<[u8; 32]>,
    pub eku: Option<(bool, bool)>, // (server, client) when the extension is present
}

/// Reference facts about a certificate, established with x509-parser and ring only.
pub fn reference(cert: &[u8], now_unix: i64) -> RefVerdict {
    use x509_parser::prelude::FromDer;
    let mut v = RefVerdict { parses: false, ed25519_self_signed: false, in_validity: false, names: vec![], spki_key: None, eku: None };
    let Ok((rest, c)) = x509_parser::certificate::X509Certificate::from_der(cert) else { return v };
    // trailing bytes after the certificate make it unacceptable as a certificate, but the facts
    // about the leading DER object are still reported
    v.parses = rest.is_empty();
    let key = c.public_key().subject_public_key.data.as_ref();
    let ed_oid = "1.3.101.112";
    let spki_is_ed = c.public_key().algorithm.algorithm.to_id_string() == ed_oid && c.public_key().algorithm.parameters.is_none();
    if spki_is_ed && key.len() == 32 {
        let mut k = [0u8; 32];
        k.copy_from_slice(key);
        v.spki_key = Some(k);
    }
    let sig_is_ed = c.signature_algorithm.algorithm.to_id_string() == ed_oid && c.tbs_certificate.signature.algorithm.to_id_string() == ed_oid;
    if let (Some(k), true) = (v.spki_key, sig_is_ed) {
        let pk = ring::signature::UnparsedPublicKey::new(&ring::signature::ED25519, k);
        v.ed25519_self_signed = pk.verify(c.tbs_certificate.as_ref(), c.signature_value.data.as_ref()).is_ok();
    }
    let nb = c.validity().not_before.timestamp();
    let na = c.validity().not_after.timestamp();
    v.in_validity = nb <= now_unix && now_unix <= na;
    if let Ok(Some(san)) = c.subject_alternative_name() {
        for n in &san.value.general_names {
            if let x509_parser::extensions::GeneralName::DNSName(d) = n {
                v.names.push(d.to_string());
            }
        }
    }
    if let Ok(Some(eku)) = c.extended_key_usage() {
        v.eku = Some((eku.value.server_auth || eku.value.any, eku.value.client_auth || eku.value.any));
    }
    v
}
