//! C18 — per-peer in-flight limit holds and never leaks capacity.
//! Explicit-state search over event sequences {arrive, poll, complete ok/err, cancel} on the real
//! `InflightLimit` futures with a hand-driven executor (poll orders are enumerated, no runtime).

use crate::report::{CheckMeta, UnitResult};
use crate::{Check, Tier};
use anemo::rpc::Status;
use anemo::types::response::StatusCode;
use anemo::{PeerId, Request, Response};
use anemo_tower::inflight_limit::{InflightLimitLayer, WaitMode};
use bytes::Bytes;
use futures::future::BoxFuture;
use serde_json::{json, Map, Value};
use std::collections::{BTreeMap, BTreeSet, HashMap, HashSet};
use std::sync::atomic::{AtomicBool, Ordering};
use std::sync::{Arc, Mutex};
use std::task::{Context, Poll, Wake, Waker};
use tower::{Layer, Service};

pub struct C18;

// ------------------------------------------------------------------------------------------
// free-running pass: real OS threads, not explored — the only way to reach races inside one poll
// (dashmap and tokio's semaphore cannot be put under a controlled scheduler). Sampled; sound:
// the gauge inside the wrapped service is exact.
// ------------------------------------------------------------------------------------------

#[derive(Clone)]
struct Counting {
    inside: Arc<std::sync::atomic::AtomicI64>,
    max: Arc<std::sync::atomic::AtomicI64>,
    entered: Arc<std::sync::atomic::AtomicI64>,
}

impl Service<Request<Bytes>> for Counting {
    type Response = Response<Bytes>;
    type Error = Status;
    type Future = BoxFuture<'static, Result<Response<Bytes>, Status>>;
    fn poll_ready(&mut self, _: &mut Context<'_>) -> Poll<Result<(), Status>> {
        Poll::Ready(Ok(()))
    }
    fn call(&mut self, _req: Request<Bytes>) -> Self::Future {
        let c = self.clone();
        Box::pin(async move {
            let now = c.inside.fetch_add(1, Ordering::SeqCst) + 1;
            c.max.fetch_max(now, Ordering::SeqCst);
            c.entered.fetch_add(1, Ordering::SeqCst);
            // stay inside long enough for every racer to have reached the limiter
            std::thread::sleep(std::time::Duration::from_millis(3));
            c.inside.fetch_sub(1, Ordering::SeqCst);
            Ok(Response::new(Bytes::new()))
        })
    }
}

fn free_running(unit: &Value, out: &mut UnitResult) {
    let limit = unit["limit"].as_u64().unwrap() as usize;
    let block = unit["block"].as_bool().unwrap();
    let racers = unit["racers"].as_u64().unwrap() as usize;
    let trials = unit["trials"].as_u64().unwrap() as usize;
    let mode = if block { WaitMode::Block } else { WaitMode::ReturnError };
    // one layer for the whole unit: every trial uses a peer the limiter has never seen
    let layer = InflightLimitLayer::new(limit, mode);
    for trial in 0..trials {
        crate::pool::crumb(|| format!("free-running in-flight limit trial {trial}"));
        out.evaluations += 1;
        let c = Counting { inside: Default::default(), max: Default::default(), entered: Default::default() };
        let mut id = [0u8; 32];
        id[..8].copy_from_slice(&(trial as u64 + 1).to_le_bytes());
        let peer = PeerId(id);
        let gate = Arc::new(std::sync::atomic::AtomicUsize::new(0));
        let mut hs = vec![];
        for _ in 0..racers {
            let mut svc = layer.layer(c.clone());
            let gate = gate.clone();
            hs.push(std::thread::spawn(move || {
                gate.fetch_add(1, Ordering::SeqCst);
                while gate.load(Ordering::SeqCst) < racers {
                    std::hint::spin_loop();
                }
                let req = Request::new(Bytes::new()).with_extension(peer);
                // (a runtime of its own per thread: the middleware may use tokio facilities)
                let rt = tokio::runtime::Builder::new_current_thread().enable_time().build().unwrap();
                rt.block_on(svc.call(req)).map(|_| ()).map_err(|e| e.status())
            }));
        }
        let results: Vec<Result<(), StatusCode>> = hs.into_iter().map(|h| h.join().unwrap()).collect();
        let max = c.max.load(Ordering::SeqCst);
        let entered = c.entered.load(Ordering::SeqCst);
        let ok = results.iter().filter(|r| r.is_ok()).count() as i64;
        let replay = json!({"unit": unit, "trial": trial});
        if max > limit as i64 {
            out.violation("limit-exceeded", format!("[free-running, limit {limit}, {}] {max} requests of one new peer were inside the wrapped service at the same instant ({racers} simultaneous first requests on {racers} threads)", if block { "Block" } else { "ReturnError" }), replay.clone());
        }
        if entered != ok {
            out.violation("admission-accounting", format!("[free-running] {entered} requests entered the wrapped service but {ok} callers got its answer"), replay.clone());
        }
        if block && ok != racers as i64 {
            out.violation("block-mode-refuses", format!("[free-running, Block] {ok} of {racers} requests were served: {results:?}"), replay.clone());
        }
        if results.iter().any(|r| matches!(r, Err(s) if *s != StatusCode::TooManyRequests)) {
            out.violation("unexpected-error", format!("[free-running] {results:?}"), replay);
        }
        out.class(format!("free-running {} served={}", if block { "block" } else { "error" }, ok.min(3)));
    }
    out.count("free_running_trials", trials as u64);
}

#[derive(Clone, Copy, Debug, PartialEq, Eq, PartialOrd, Ord, Hash)]
enum Ev {
    Arrive(u8),
    Poll(u8),
    Complete(u8, bool),
    Cancel(u8),
}

fn ev_json(e: &Ev) -> Value {
    match *e {
        Ev::Arrive(p) => json!(["arrive", if p == 0 { "P" } else { "Q" }]),
        Ev::Poll(k) => json!(["poll", k]),
        Ev::Complete(k, ok) => json!([if ok { "complete-ok" } else { "complete-err" }, k]),
        Ev::Cancel(k) => json!(["cancel", k]),
    }
}

#[derive(Default)]
struct Shared {
    gauge: HashMap<PeerId, i64>,
    gates: HashMap<usize, tokio::sync::oneshot::Sender<bool>>,
    entered: Vec<usize>,
    sent: HashMap<usize, bool>,
}

#[derive(Clone)]
struct Gated {
    shared: Arc<Mutex<Shared>>,
}

struct Guard {
    shared: Arc<Mutex<Shared>>,
    peer: PeerId,
}
impl Drop for Guard {
    fn drop(&mut self) {
        *self.shared.lock().unwrap().gauge.entry(self.peer).or_default() -= 1;
    }
}

impl Service<Request<Bytes>> for Gated {
    type Response = Response<Bytes>;
    type Error = Status;
    type Future = BoxFuture<'static, Result<Response<Bytes>, Status>>;
    fn poll_ready(&mut self, _: &mut Context<'_>) -> Poll<Result<(), Status>> {
        Poll::Ready(Ok(()))
    }
    fn call(&mut self, req: Request<Bytes>) -> Self::Future {
        let id: usize = req.headers().get("id").unwrap().parse().unwrap();
        let peer = *req.peer_id().unwrap();
        let (tx, rx) = tokio::sync::oneshot::channel();
        {
            let mut s = self.shared.lock().unwrap();
            *s.gauge.entry(peer).or_default() += 1;
            s.gates.insert(id, tx);
            s.entered.push(id);
        }
        let guard = Guard { shared: self.shared.clone(), peer };
        Box::pin(async move {
            let _g = guard;
            match rx.await {
                Ok(true) => Ok(Response::new(Bytes::from(format!("done {id}")))),
                _ => Err(Status::new(StatusCode::BadRequest)),
            }
        })
    }
}

struct Flag(AtomicBool);
impl Wake for Flag {
    fn wake(self: Arc<Self>) {
        self.0.store(true, Ordering::SeqCst);
    }
}

#[derive(Clone, Debug, PartialEq)]
enum Stage {
    Pending,
    Done(String),
    Cancelled,
}

struct Req {
    peer: u8,
    fut: Option<BoxFuture<'static, Result<Response<Bytes>, Status>>>,
    flag: Arc<Flag>,
    stage: Stage,
}

/// identities that differ in their last byte only
fn near_id(last: u8) -> PeerId {
    let mut b = [0xcd; 32];
    b[31] = last;
    PeerId(b)
}

struct World {
    limit: usize,
    block: bool,
    shared: Arc<Mutex<Shared>>,
    services: Vec<anemo_tower::inflight_limit::InflightLimit<Gated>>,
    reqs: Vec<Req>,
    peers: [PeerId; 2],
    /// anemo runs inside tokio, so the middleware may use the runtime (spawn, timers): the
    /// hand-driven futures are polled inside the context of a paused current-thread runtime, which
    /// is given a few turns after every event so that tasks spawned by the subject make progress
    rt: Arc<tokio::runtime::Runtime>,
}

impl World {
    fn new(limit: usize, block: bool, strategy: u64) -> World {
        let shared = Arc::new(Mutex::new(Shared::default()));
        let layer = InflightLimitLayer::new(limit, if block { WaitMode::Block } else { WaitMode::ReturnError });
        let inner = Gated { shared: shared.clone() };
        // how the services that receive the requests are derived from the one layer
        let services = match strategy {
            0 => {
                let s = layer.layer(inner);
                vec![s.clone(), s.clone(), s]
            }
            1 => vec![layer.layer(inner.clone()), layer.layer(inner.clone()), layer.layer(inner)],
            _ => {
                let l2 = layer.clone();
                let s = layer.layer(inner.clone());
                vec![s.clone(), l2.layer(inner), s]
            }
        };
        let rt = Arc::new(tokio::runtime::Builder::new_current_thread().enable_time().start_paused(true).build().unwrap());
        World { limit, block, shared, services, reqs: vec![], peers: [near_id(1), near_id(2)], rt }
    }

    fn turn(&self) {
        self.rt.block_on(async {
            for _ in 0..4 {
                tokio::task::yield_now().await;
            }
        });
    }

    fn in_service(&self, k: usize) -> bool {
        self.shared.lock().unwrap().gates.contains_key(&k) && self.reqs[k].stage == Stage::Pending
    }

    fn gauge(&self, p: u8) -> i64 {
        *self.shared.lock().unwrap().gauge.get(&self.peers[p as usize]).unwrap_or(&0)
    }

    fn poll(&mut self, k: usize) {
        let r = &mut self.reqs[k];
        let Some(f) = r.fut.as_mut() else { return };
        r.flag.0.store(false, Ordering::SeqCst);
        let waker = Waker::from(r.flag.clone());
        let mut cx = Context::from_waker(&waker);
        if let Poll::Ready(res) = f.as_mut().poll(&mut cx) {
            r.fut = None;
            r.stage = Stage::Done(match res {
                Ok(resp) => format!("ok:{}", String::from_utf8_lossy(resp.body())),
                Err(s) => format!("err:{:?}", s.status()),
            });
        }
    }

    /// Apply one event; returns an oracle violation if the step itself shows one.
    fn step(&mut self, e: Ev) -> Result<(), (String, String)> {
        let rt = self.rt.clone();
        let _context = rt.enter();
        let r = self.step_inner(e);
        drop(_context);
        self.turn();
        r.and_then(|_| self.invariants())
    }

    fn step_inner(&mut self, e: Ev) -> Result<(), (String, String)> {
        match e {
            Ev::Arrive(p) => {
                let k = self.reqs.len();
                let gauge_before = self.gauge(p);
                let req = Request::new(Bytes::new()).with_header("id", k.to_string()).with_extension(self.peers[p as usize]);
                let n = self.services.len();
                let fut = self.services[k % n].call(req);
                self.reqs.push(Req { peer: p, fut: Some(fut), flag: Arc::new(Flag(AtomicBool::new(false))), stage: Stage::Pending });
                self.poll(k);
                // (a middleware may hand the admitted request to the runtime: give it its turns
                // before asking whether the request has entered the wrapped service)
                self.turn();
                let admitted = self.shared.lock().unwrap().entered.contains(&k);
                // waiters that arrived earlier are served first (excess requests wait, in order)
                let waiting_ahead = (0..k).filter(|j| self.reqs[*j].peer == p && self.reqs[*j].fut.is_some() && !self.shared.lock().unwrap().entered.contains(j)).count();
                let has_capacity = (gauge_before as usize) + waiting_ahead < self.limit;
                if has_capacity && !admitted {
                    return Err(("not-admitted-with-free-capacity".into(), format!("request {k} of peer {p} arrived with {gauge_before} of {} slots in use but was not admitted (stage {:?})", self.limit, self.reqs[k].stage)));
                }
                if !has_capacity {
                    if admitted && (gauge_before as usize) >= self.limit {
                        return Err(("limit-exceeded".into(), format!("request {k} of peer {p} was admitted although {gauge_before} of {} slots were in use", self.limit)));
                    }
                    if self.block {
                        if self.reqs[k].stage != Stage::Pending {
                            return Err(("block-mode-refuses".into(), format!("request {k} beyond the limit did not wait in Block mode: {:?}", self.reqs[k].stage)));
                        }
                    } else if self.reqs[k].stage != Stage::Done("err:TooManyRequests".into()) {
                        return Err(("return-error-mode-wrong-answer".into(), format!("request {k} beyond the limit got {:?} instead of TooManyRequests", self.reqs[k].stage)));
                    }
                }
            }
            Ev::Poll(k) => {
                self.poll(k as usize);
            }
            Ev::Complete(k, ok) => {
                let tx = self.shared.lock().unwrap().gates.remove(&(k as usize));
                if let Some(tx) = tx {
                    self.shared.lock().unwrap().sent.insert(k as usize, ok);
                    let _ = tx.send(ok);
                }
            }
            Ev::Cancel(k) => {
                let r = &mut self.reqs[k as usize];
                r.fut = None;
                r.stage = Stage::Cancelled;
                self.shared.lock().unwrap().gates.remove(&(k as usize));
            }
        }
        Ok(())
    }

    fn invariants(&self) -> Result<(), (String, String)> {
        for p in 0..2u8 {
            let g = self.gauge(p);
            if g as usize > self.limit || g < 0 {
                return Err(("limit-exceeded".into(), format!("{g} requests of peer {p} are executing inside the wrapped service, the limit is {}", self.limit)));
            }
            // no lost wake-up: free capacity + a waiter  =>  some waiter of that peer is woken
            let waiters: Vec<usize> = (0..self.reqs.len()).filter(|k| self.reqs[*k].peer == p && self.reqs[*k].stage == Stage::Pending && self.reqs[*k].fut.is_some() && !self.shared.lock().unwrap().entered.contains(k)).collect();
            if (g as usize) < self.limit && !waiters.is_empty() && self.block {
                // slots can also be held by finished-but-unpolled futures (their permit is
                // released when they are polled to completion or dropped)
                let unreaped = (0..self.reqs.len()).filter(|k| self.reqs[*k].peer == p && self.reqs[*k].fut.is_some() && self.shared.lock().unwrap().entered.contains(k) && !self.shared.lock().unwrap().gates.contains_key(k)).count();
                let woken = waiters.iter().any(|k| self.reqs[*k].flag.0.load(Ordering::SeqCst));
                if !woken && g as usize + unreaped < self.limit {
                    return Err(("lost-wakeup".into(), format!("peer {p} has {g} of {} slots in use and requests {waiters:?} waiting, but none of them has been woken", self.limit)));
                }
            }
        }
        Ok(())
    }

    fn enabled(&self) -> Vec<Ev> {
        let mut v = vec![Ev::Arrive(0), Ev::Arrive(1)];
        for k in 0..self.reqs.len() {
            let r = &self.reqs[k];
            if r.fut.is_some() {
                if r.flag.0.load(Ordering::SeqCst) {
                    v.push(Ev::Poll(k as u8));
                }
                if self.in_service(k) {
                    v.push(Ev::Complete(k as u8, true));
                    v.push(Ev::Complete(k as u8, false));
                }
                v.push(Ev::Cancel(k as u8));
            }
        }
        v
    }

    fn canon(&self) -> String {
        // requests are interchangeable up to (peer, stage, woken, which service clone they went to)
        let s = self.shared.lock().unwrap();
        let mut items: Vec<String> = self
            .reqs
            .iter()
            .enumerate()
            .map(|(k, r)| {
                let st = match &r.stage {
                    Stage::Pending => {
                        if s.gates.contains_key(&k) {
                            "in"
                        } else if s.entered.contains(&k) {
                            if s.sent.get(&k) == Some(&false) {
                                "finishing-err"
                            } else {
                                "finishing"
                            }
                        } else {
                            "wait"
                        }
                    }
                    Stage::Done(_) => "done",
                    Stage::Cancelled => "gone",
                };
                format!("{}:{}:{}:{}", r.peer, st, r.flag.0.load(Ordering::SeqCst) as u8, k % self.services.len())
            })
            .collect();
        // finished requests no longer influence the future
        items.retain(|i| !i.contains(":done:") && !i.contains(":gone:"));
        // keep arrival order among waiters (the semaphore is FIFO) but not among the others
        let n = self.reqs.len() % self.services.len();
        format!("{items:?}|next_clone={n}|g={},{}", s.gauge.get(&self.peers[0]).unwrap_or(&0), s.gauge.get(&self.peers[1]).unwrap_or(&0))
    }

    /// Leaf check: finish everything, then `limit` fresh requests per peer must be admitted at once.
    fn drain_and_refill(&mut self) -> Result<(), (String, String)> {
        let rt = self.rt.clone();
        let _context = rt.enter();
        for k in 0..self.reqs.len() {
            let tx = self.shared.lock().unwrap().gates.remove(&k);
            if let Some(tx) = tx {
                let _ = tx.send(true);
            }
        }
        for _round in 0..(self.reqs.len() + 2) {
            for k in 0..self.reqs.len() {
                if self.reqs[k].fut.is_some() {
                    self.poll(k);
                    self.turn();
                    let tx = self.shared.lock().unwrap().gates.remove(&k);
                    if let Some(tx) = tx {
                        let _ = tx.send(true);
                    }
                }
            }
        }
        if let Some(k) = (0..self.reqs.len()).find(|k| self.reqs[*k].fut.is_some()) {
            return Err(("request-stuck".into(), format!("request {k} never finished although every admitted request was completed and every future polled repeatedly")));
        }
        for p in 0..2u8 {
            if self.gauge(p) != 0 {
                return Err(("slot-leaked".into(), format!("all requests finished but the gauge of peer {p} is {}", self.gauge(p))));
            }
            for i in 0..self.limit {
                let k = self.reqs.len();
                self.step(Ev::Arrive(p)).map_err(|(_, m)| ("slot-leaked".to_string(), format!("after everything finished, fresh request #{i} of peer {p}: {m}")))?;
                if !self.in_service(k) {
                    return Err(("slot-leaked".into(), format!("after everything finished, fresh request #{i} of peer {p} (limit {}) was not admitted", self.limit)));
                }
            }
        }
        Ok(())
    }
}

fn replay_seq(limit: usize, block: bool, strategy: u64, seq: &[Ev]) -> (World, Result<(), (String, String)>) {
    let mut w = World::new(limit, block, strategy);
    for e in seq {
        if let Err(v) = w.step(*e) {
            return (w, Err(v));
        }
    }
    (w, Ok(()))
}

fn search(unit: &Value, out: &mut UnitResult) {
    let limit = unit["limit"].as_u64().unwrap() as usize;
    let block = unit["block"].as_bool().unwrap();
    let strategy = unit["strategy"].as_u64().unwrap();
    let depth = unit["depth"].as_u64().unwrap() as usize;
    let max_reqs = unit["max_reqs"].as_u64().unwrap() as usize;
    let first: Vec<Ev> = unit["prefix"].as_array().unwrap().iter().map(parse_ev).collect();
    let mut seen: HashMap<String, usize> = HashMap::new();
    let mut stack: Vec<Vec<Ev>> = vec![first];
    let mut outcomes: BTreeSet<String> = BTreeSet::new();
    while let Some(seq) = stack.pop() {
        crate::pool::crumb(|| format!("in-flight limiter events {:?}", seq.iter().map(ev_json).collect::<Vec<_>>()));
        let (mut w, r) = replay_seq(limit, block, strategy, &seq);
        out.transitions += 1;
        let rp = json!({"unit": unit, "events": seq.iter().map(ev_json).collect::<Vec<_>>()});
        if let Err((k, m)) = r {
            out.violation(k, format!("[limit {limit}, {}, clone strategy {strategy}] {m}; events {:?}", if block { "Block" } else { "ReturnError" }, seq.iter().map(ev_json).map(|v| v.to_string()).collect::<Vec<_>>()), rp);
            continue;
        }
        for r in &w.reqs {
            if let Stage::Done(s) = &r.stage {
                outcomes.insert(s.split(' ').next().unwrap().to_string());
            }
        }
        let key = w.canon();
        match seen.get(&key) {
            Some(d) if *d <= seq.len() => continue,
            _ => {}
        }
        seen.insert(key, seq.len());
        out.states += 1;
        out.evaluations += 1;
        for r in &w.reqs {
            if let Stage::Done(s) = &r.stage {
                outcomes.insert(s.split(' ').next().unwrap().to_string());
            }
        }
        if seq.len() >= depth {
            // quiescent leaf
            if let Err((k, m)) = w.drain_and_refill() {
                out.violation(k, format!("[limit {limit}, {}, clone strategy {strategy}] {m}; events {:?}", if block { "Block" } else { "ReturnError" }, seq.iter().map(ev_json).map(|v| v.to_string()).collect::<Vec<_>>()), rp);
            }
            out.traces_validated += 1;
            if out.samples.len() < 1 {
                out.sample(json!(seq.iter().map(ev_json).collect::<Vec<_>>()));
            }
            continue;
        }
        let en = w.enabled();
        for e in en.into_iter().rev() {
            if matches!(e, Ev::Arrive(_)) && w.reqs.len() >= max_reqs {
                continue;
            }
            let mut n = seq.clone();
            n.push(e);
            stack.push(n);
        }
    }
    for o in outcomes {
        out.class(format!("{} limit{limit} outcome {o}", if block { "block" } else { "error" }));
    }
    let _ = HashSet::<u8>::new();
    let _ = BTreeMap::<u8, u8>::new();
}

fn parse_ev(v: &Value) -> Ev {
    let k = v[1].as_u64().map(|x| x as u8);
    match v[0].as_str().unwrap() {
        "arrive" => Ev::Arrive(if v[1] == "P" { 0 } else { 1 }),
        "poll" => Ev::Poll(k.unwrap()),
        "complete-ok" => Ev::Complete(k.unwrap(), true),
        "complete-err" => Ev::Complete(k.unwrap(), false),
        _ => Ev::Cancel(k.unwrap()),
    }
}

impl Check for C18 {
    fn meta(&self, _tier: Tier) -> CheckMeta {
        CheckMeta {
            property: "C18",
            level: "model_checking",
            rule: "explicit-state search: events {arrive(P|Q) = create the real call future through one of 3 service instances derived from one layer and poll it once, poll(k) of a woken future, complete(k, ok|err) of a request inside the wrapped service, cancel(k) = drop the future at any stage}; limit in {1,2}, mode in {Block, ReturnError}, 3 ways of deriving the service instances; every sequence up to the depth, deduplicated on (stage, wake flag and service instance of every live request in arrival order, per-peer gauge); invariant in every state, drain-and-refill at every leaf; distinct = distinct request outcomes".into(),
            assumptions: vec!["hand-driven executor: only woken futures are polled (a spurious poll is not modelled)".into(), "tokio's Semaphore and dashmap are executed, not explored internally; a supplementary FREE-RUNNING pass (4 OS threads issuing the first requests of a never-seen peer at the same instant, 600 | 6000 trials, exact gauge) samples the thread interleavings inside one poll — counted under free_running_trials, not part of the exhaustive claim".into()],
            exhaustive: true,
        }
    }

    fn units(&self, tier: Tier) -> Vec<Value> {
        let mut u = vec![];
        for limit in [1u64, 2] {
            for block in [true, false] {
                for strategy in 0..3u64 {
                    for first in [json!(["arrive", "P"]), json!(["arrive", "Q"])] {
                        u.push(json!({"limit":limit,"block":block,"strategy":strategy,"depth":tier.pick(10, 13),"max_reqs":tier.pick(5, 6),"prefix":[first]}));
                    }
                }
            }
        }
        // free-running (sampled) pass on real threads
        for block in [false, true] {
            for limit in [1u64, 2] {
                u.push(json!({"kind":"free-running","limit":limit,"block":block,"racers":4,"trials":tier.pick(150, 1500)}));
            }
        }
        u
    }

    fn run_unit(&self, _tier: Tier, unit: &Value, out: &mut UnitResult) {
        if unit["kind"] == "free-running" {
            free_running(unit, out);
            return;
        }
        search(unit, out);
    }

    fn replay(&self, replay: &Value) -> String {
        let unit = &replay["unit"];
        if unit["kind"] == "free-running" {
            let mut out = UnitResult::default();
            free_running(unit, &mut out);
            return format!("free-running unit {unit} re-run (thread timing is not reproducible): {:?}", out.violations.iter().map(|v| (&v.key, &v.message)).collect::<Vec<_>>());
        }
        let seq: Vec<Ev> = replay["events"].as_array().unwrap().iter().map(parse_ev).collect();
        let (mut w, r) = replay_seq(unit["limit"].as_u64().unwrap() as usize, unit["block"].as_bool().unwrap(), unit["strategy"].as_u64().unwrap(), &seq);
        let leaf = if r.is_ok() { w.drain_and_refill() } else { Ok(()) };
        format!("unit {unit}\nevents {}\nstep result {r:?}\nleaf result {leaf:?}\nstate {}", replay["events"], w.canon())
    }

    fn finish(&self, _tier: Tier, total: &mut UnitResult) -> Map<String, Value> {
        for need in ["outcome ok:done", "outcome err:TooManyRequests", "outcome err:BadRequest"] {
            if !total.classes.keys().any(|k| k.contains(need)) {
                total.machinery_errors.push(format!("vacuous: no request ended with `{need}`"));
            }
        }
        Map::new()
    }
}
