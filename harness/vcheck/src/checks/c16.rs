//! C16 — routing delivers each request to exactly the matching service.
//! Every route-table-building program up to a depth x every request string over a small alphabet
//! up to a length, on the real `Router`, against a reference matcher written from the statement.

use crate::report::{CheckMeta, UnitResult};
use crate::{Check, Tier};
use anemo::types::response::StatusCode;
use anemo::{Request, Response, Router};
use bytes::Bytes;
use futures::FutureExt;
use serde_json::{json, Map, Value};
use std::collections::BTreeMap;
use std::convert::Infallible;
use std::sync::atomic::{AtomicU64, Ordering};
use std::sync::{Arc, Mutex};
use std::task::{Context, Poll};
use tower::Service;

pub struct C16;

const PATTERNS: [&str; 7] = ["/", "/a", "/a/b", "/b", "/a/*rest", "/b/*rest", "/Greeter.Admin/*rest"];
const ALPHABET: [char; 9] = ['/', 'a', 'b', '*', ':', '.', ' ', 'é', '\0'];

type Calls = Arc<Mutex<BTreeMap<u32, u64>>>;

/// A leaf service: answers with its id and the tags the request collected on the way in.
#[derive(Clone)]
struct Leaf {
    id: u32,
    calls: Calls,
}

impl Service<Request<Bytes>> for Leaf {
    type Response = Response<Bytes>;
    type Error = Infallible;
    type Future = std::future::Ready<Result<Response<Bytes>, Infallible>>;
    fn poll_ready(&mut self, _: &mut Context<'_>) -> Poll<Result<(), Infallible>> {
        Poll::Ready(Ok(()))
    }
    fn call(&mut self, req: Request<Bytes>) -> Self::Future {
        *self.calls.lock().unwrap().entry(self.id).or_default() += 1;
        let tags = req.headers().get("tags").cloned().unwrap_or_default();
        std::future::ready(Ok(Response::new(Bytes::new()).with_header("svc", self.id.to_string()).with_header("tags", tags)))
    }
}

/// A service that is never ready (a saturated concurrency limit, say). Requests for ITS route
/// wait; nobody else's may.
#[derive(Clone)]
struct Busy;

impl Service<Request<Bytes>> for Busy {
    type Response = Response<Bytes>;
    type Error = Infallible;
    type Future = std::future::Ready<Result<Response<Bytes>, Infallible>>;
    fn poll_ready(&mut self, _: &mut Context<'_>) -> Poll<Result<(), Infallible>> {
        Poll::Pending
    }
    fn call(&mut self, _req: Request<Bytes>) -> Self::Future {
        std::future::ready(Ok(Response::new(Bytes::new()).with_header("svc", "busy")))
    }
}

macro_rules! rpc_leaf {
    ($name:ident, $svc:expr) => {
        #[derive(Clone)]
        struct $name(Leaf);
        impl Service<Request<Bytes>> for $name {
            type Response = Response<Bytes>;
            type Error = Infallible;
            type Future = std::future::Ready<Result<Response<Bytes>, Infallible>>;
            fn poll_ready(&mut self, _: &mut Context<'_>) -> Poll<Result<(), Infallible>> {
                Poll::Ready(Ok(()))
            }
            fn call(&mut self, req: Request<Bytes>) -> Self::Future {
                self.0.call(req)
            }
        }
        impl anemo::rpc::RpcService for $name {
            const SERVICE_NAME: &'static str = $svc;
        }
    };
}
rpc_leaf!(RpcPkg, "Greeter.Admin");
rpc_leaf!(RpcGreeter, "Greeter");
rpc_leaf!(RpcB, "b");

/// A layer that appends its tag to the request's `tags` header.
#[derive(Clone)]
struct TagLayer(u32, Arc<AtomicU64>);
#[derive(Clone)]
struct Tagged<S> {
    inner: S,
    tag: u32,
    /// how many times any route layer ran (shared by all layers of a table)
    ran: Arc<AtomicU64>,
}
impl<S> tower::Layer<S> for TagLayer {
    type Service = Tagged<S>;
    fn layer(&self, inner: S) -> Tagged<S> {
        Tagged { inner, tag: self.0, ran: self.1.clone() }
    }
}
impl<S: Service<Request<Bytes>, Response = Response<Bytes>, Error = Infallible>> Service<Request<Bytes>> for Tagged<S> {
    type Response = Response<Bytes>;
    type Error = Infallible;
    type Future = S::Future;
    fn poll_ready(&mut self, cx: &mut Context<'_>) -> Poll<Result<(), Infallible>> {
        self.inner.poll_ready(cx)
    }
    fn call(&mut self, mut req: Request<Bytes>) -> Self::Future {
        self.ran.fetch_add(1, Ordering::SeqCst);
        let mut t = req.headers().get("tags").cloned().unwrap_or_default();
        t.push_str(&format!("{},", self.tag));
        req.headers_mut().insert("tags".into(), t);
        self.inner.call(req)
    }
}

#[derive(Clone, Debug, PartialEq)]
enum Op {
    Route(usize),
    Layer,
    Merge(usize),
    /// merge a sub-table that was built BEFORE the first operation of this program (its routes
    /// are older than everything the table holds when it is merged in)
    MergePre(usize),
    Rpc(usize),
    /// keep a clone of the table as it is now; the program goes on extending the original, and
    /// at the end the clone must still route exactly as it did when it was taken
    Fork,
}

fn op_json(o: &Op) -> Value {
    match o {
        Op::Route(p) => json!(["route", PATTERNS[*p]]),
        Op::Layer => json!(["route_layer", 0]),
        Op::Merge(s) => json!(["merge", s]),
        Op::MergePre(s) => json!(["merge_table_built_earlier", s]),
        Op::Fork => json!(["clone_kept_aside", 0]),
        Op::Rpc(n) => {
            let name = ["Greeter.Admin", "Greeter", "b"][*n];
            json!(["add_rpc_service", name])
        }
    }
}

/// sub-tables available to `merge` (themselves programs, nested merges up to depth 2)
fn sub_programs() -> Vec<Vec<Op>> {
    vec![
        vec![Op::Route(3)],
        vec![Op::Route(3), Op::Layer],
        vec![Op::Route(4), Op::Layer, Op::Route(3)],
        vec![Op::Merge(1), Op::Layer, Op::Route(1)],
        vec![Op::Rpc(1), Op::Layer],
    ]
}

fn alphabet() -> Vec<Op> {
    let mut v: Vec<Op> = (0..PATTERNS.len()).map(Op::Route).collect();
    v.push(Op::Layer);
    for s in 0..sub_programs().len() {
        v.push(Op::Merge(s));
    }
    for n in 0..3 {
        v.push(Op::Rpc(n));
    }
    v.push(Op::Fork);
    v.push(Op::MergePre(0));
    v.push(Op::MergePre(2));
    v
}

/// reference table entry: pattern, service id, tags in application order
type RefTable = Vec<(String, u32, Vec<u32>)>;

struct Builder {
    next_svc: u32,
    next_tag: u32,
    calls: Calls,
    layer_runs: Arc<AtomicU64>,
    forks: Vec<(Router, RefTable)>,
}

impl Builder {
    fn build(&mut self, prog: &[Op]) -> (Router, RefTable) {
        // sub-tables that exist before this table's first operation
        let mut pre: std::collections::VecDeque<(Router, RefTable)> = prog
            .iter()
            .filter_map(|op| match op {
                Op::MergePre(s) => Some(*s),
                _ => None,
            })
            .collect::<Vec<_>>()
            .into_iter()
            .map(|s| self.build(&sub_programs()[s]))
            .collect();
        let mut r = Router::new();
        let mut t: RefTable = vec![];
        for op in prog {
            match op {
                Op::MergePre(_) => {
                    let (sub, st) = pre.pop_front().unwrap();
                    r = r.merge(sub);
                    t.extend(st);
                }
                Op::Route(p) => {
                    let id = self.next_svc;
                    self.next_svc += 1;
                    r = r.route(PATTERNS[*p], Leaf { id, calls: self.calls.clone() });
                    t.push((PATTERNS[*p].to_string(), id, vec![]));
                }
                Op::Layer => {
                    let tag = self.next_tag;
                    self.next_tag += 1;
                    r = r.route_layer(TagLayer(tag, self.layer_runs.clone()));
                    for e in t.iter_mut() {
                        e.2.push(tag);
                    }
                }
                Op::Fork => {
                    self.forks.push((r.clone(), t.clone()));
                }
                Op::Merge(s) => {
                    let (sub, st) = self.build(&sub_programs()[*s]);
                    r = r.merge(sub);
                    t.extend(st);
                }
                Op::Rpc(n) => {
                    let id = self.next_svc;
                    self.next_svc += 1;
                    let leaf = Leaf { id, calls: self.calls.clone() };
                    let name = ["Greeter.Admin", "Greeter", "b"][*n];
                    r = match n {
                        0 => r.add_rpc_service(RpcPkg(leaf)),
                        1 => r.add_rpc_service(RpcGreeter(leaf)),
                        _ => r.add_rpc_service(RpcB(leaf)),
                    };
                    t.push((format!("/{name}/*rest"), id, vec![]));
                }
            }
        }
        (r, t)
    }
}

/// Reference matcher from the statement: exact paths; `P/*rest` matches every route that
/// starts with `P/` (the tail may be empty).
fn ref_match<'a>(t: &'a RefTable, route: &str) -> Vec<&'a (String, u32, Vec<u32>)> {
    t.iter()
        .filter(|(p, _, _)| match p.strip_suffix("*rest") {
            Some(prefix) => route.starts_with(prefix),
            None => p == route,
        })
        .collect()
}

fn requests(max_len: usize, table: &RefTable) -> Vec<String> {
    let mut out = vec![String::new()];
    let mut layer = vec![String::new()];
    for _ in 0..max_len {
        let mut next = Vec::with_capacity(layer.len() * ALPHABET.len());
        for s in &layer {
            for c in ALPHABET {
                let mut t = s.clone();
                t.push(c);
                next.push(t);
            }
        }
        out.extend(next.iter().cloned());
        layer = next;
    }
    // mutations of the registered patterns
    for (p, _, _) in table {
        let base = p.strip_suffix("*rest").unwrap_or(p).to_string();
        for suffix in ["", "/", "x", "x/y", "/x", "*rest", ":p", "//", "\0", "é"] {
            out.push(format!("{base}{suffix}"));
            out.push(format!("{}{suffix}", base.trim_end_matches('/')));
        }
        for cut in 0..base.len() {
            if base.is_char_boundary(cut) {
                out.push(base[..cut].to_string());
            }
        }
    }
    // long routes: a multi-byte character at every byte offset up to 130 (any fixed-index string
    // handling trips on one of them), and lengths around powers of two; bare (unmatched unless a
    // wildcard covers "/") and behind every registered wildcard prefix
    let mut prefixes: Vec<String> = vec![String::new()];
    for (p, _, _) in table {
        if let Some(prefix) = p.strip_suffix("*rest") {
            if !prefixes.iter().any(|x| x == prefix) {
                prefixes.push(prefix.to_string());
            }
        }
    }
    for prefix in &prefixes {
        for pos in 0..=130usize {
            for tail in [0usize, 80] {
                out.push(format!("{prefix}/{}é{}", "x".repeat(pos), "y".repeat(tail)));
            }
        }
        for len in [63usize, 64, 65, 127, 128, 129, 255, 256, 257, 1023, 1024, 1025, 4096, 65_536] {
            out.push(format!("{prefix}/{}", "z".repeat(len)));
            out.push(format!("{prefix}/{}", "é".repeat(len / 2)));
        }
    }
    out
}

fn run_program(prog: &[Op], max_len: usize, out: &mut UnitResult, unit: &Value) {
    crate::pool::crumb(|| format!("routing program {:?}", prog.iter().map(op_json).collect::<Vec<_>>()));
    let calls: Calls = Arc::new(Mutex::new(BTreeMap::new()));
    let layer_runs = Arc::new(AtomicU64::new(0));
    let mut b = Builder { next_svc: 0, next_tag: 100, calls: calls.clone(), layer_runs: layer_runs.clone(), forks: vec![] };
    let built = std::panic::catch_unwind(std::panic::AssertUnwindSafe(|| b.build(prog)));
    out.states += 1;
    out.transitions += prog.len() as u64;
    let (router, table) = match built {
        Ok(x) => x,
        Err(_) => {
            // documented build-time panic (conflicting routes): the table does not exist
            out.count("tables_rejected_at_build_time", 1);
            out.class("build-rejected");
            return;
        }
    };
    out.traces_validated += 1;
    let pj = || json!(prog.iter().map(op_json).collect::<Vec<_>>());
    let mut matched = 0u64;
    let wire_rt = super::c07::wire_runtime();
    // the table the program built, then every clone kept aside on the way (probed with the
    // short routes and the mutations of ALL patterns, also those added after it was taken)
    let mut subjects: Vec<(Router, RefTable, Vec<String>)> = vec![];
    let full_requests = requests(max_len, &table);
    let fork_requests = requests(1, &table);
    let forks = std::mem::take(&mut b.forks);
    // the same table with one more route whose service is never ready: every other request is
    // routed as before (readiness of a route concerns that route only)
    {
        use tower::ServiceExt;
        let probe = std::panic::catch_unwind(std::panic::AssertUnwindSafe(|| {
            let mut r2 = router.clone().route("/never-ready", Busy);
            let mut bad: Vec<String> = vec![];
            for route in full_requests.iter().take(12).chain(["/never-ready/x".to_string(), "/zzz".to_string()].iter()) {
                if route.starts_with("/never-ready") && route.len() == "/never-ready".len() {
                    continue;
                }
                let want_found = !ref_match(&table, route).is_empty();
                if r2.ready().now_or_never().is_none() {
                    bad.push(format!("the table is not ready for a request on {route:?} while the service of the unrelated route \"/never-ready\" is busy"));
                    break;
                }
                match r2.call(Request::new(Bytes::new()).with_route(route.clone())).now_or_never() {
                    None => bad.push(format!("a request on {route:?} waits while the service of the unrelated route \"/never-ready\" is busy")),
                    Some(Ok(resp)) => {
                        let found = resp.status() != StatusCode::NotFound;
                        if found != want_found {
                            bad.push(format!("with a busy unrelated route in the table, {route:?} was answered {:?}", resp.status()));
                        }
                    }
                    Some(Err(e)) => match e {},
                }
            }
            bad
        }));
        out.evaluations += 1;
        match probe {
            Ok(bad) => {
                for m in bad.into_iter().take(1) {
                    out.violation("waits-for-unrelated-route", m, json!({"unit": unit, "program": pj(), "route": "/never-ready"}));
                }
            }
            Err(p) => out.violation("router-panics", format!("table with a never-ready route panicked: {}", crate::exec::panic_message(&p)), json!({"unit": unit, "program": pj(), "route": "/never-ready"})),
        }
    }
    subjects.push((router, table.clone(), full_requests));
    for (fr, ft) in forks {
        subjects.push((fr, ft, fork_requests.clone()));
    }
    let n_subjects = subjects.len();
    for (si, (mut router, table, reqs)) in subjects.into_iter().enumerate() {
    let is_fork = si > 0;
    for (ri, route) in reqs.into_iter().enumerate() {
        out.evaluations += 1;
        // what the router is handed is what the real request decoder makes of the remote's bytes:
        // short routes and a slice of the others travel through the real encoder and decoder
        let arriving = if route.chars().count() <= 1 || ri % 97 == 0 {
            match super::c07::route_via_wire(&wire_rt, &route) {
                Ok(r) => r,
                Err(e) => {
                    out.violation("route-lost-on-the-wire", format!("route {route:?} did not survive the request codec: {e}"), json!({"unit": unit, "program": pj(), "route": route}));
                    continue;
                }
            }
        } else {
            route.clone()
        };
        let expect = ref_match(&table, &route);
        let before: u64 = calls.lock().unwrap().values().sum();
        let layers_before = layer_runs.load(Ordering::SeqCst);
        let r = std::panic::catch_unwind(std::panic::AssertUnwindSafe(|| router.call(Request::new(Bytes::new()).with_route(arriving.clone())).now_or_never()));
        let after_map = calls.lock().unwrap().clone();
        let after: u64 = after_map.values().sum();
        let replay = json!({"unit": unit, "program": pj(), "route": route, "on_clone_kept_aside": is_fork});
        let resp = match r {
            Err(p) => {
                out.violation("router-panics", format!("Router::call panicked on route {route:?}: {}", crate::exec::panic_message(&p)), replay);
                continue;
            }
            Ok(None) => {
                out.violation("router-pending", format!("routing of {route:?} did not complete synchronously"), replay);
                continue;
            }
            Ok(Some(Ok(resp))) => resp,
            Ok(Some(Err(e))) => match e {},
        };
        let invoked = after - before;
        let layers_ran = layer_runs.load(Ordering::SeqCst) - layers_before;
        if expect.is_empty() && layers_ran != 0 {
            out.violation("route-layer-on-unmatched-route", format!("route {route:?} matches no pattern but {layers_ran} route layer(s) ran for it"), replay.clone());
        }
        if let Some(e) = expect.first() {
            if expect.len() == 1 && layers_ran != e.2.len() as u64 {
                out.violation("wrong-route-layers", format!("route {route:?} (pattern {:?}): {layers_ran} route layers ran, {} were applied after its registration", e.0, e.2.len()), replay.clone());
            }
        }
        if expect.is_empty() {
            if resp.status() != StatusCode::NotFound || invoked != 0 {
                out.violation("unmatched-route-served", format!("route {route:?} matches no pattern of the table {:?} but got status {:?} with {invoked} service invocation(s) (svc {:?})", table.iter().map(|e| &e.0).collect::<Vec<_>>(), resp.status(), resp.headers().get("svc")), replay);
            }
        } else {
            matched += 1;
            let svc = resp.headers().get("svc").and_then(|s| s.parse::<u32>().ok());
            let hit = expect.iter().find(|e| Some(e.1) == svc);
            if invoked != 1 {
                out.violation("not-exactly-one-service", format!("route {route:?}: {invoked} services were invoked"), replay.clone());
            }
            match hit {
                None => out.violation("wrong-service", format!("route {route:?} should reach the service of pattern {:?} but was answered by {svc:?} (status {:?}); table {:?}", expect[0].0, resp.status(), table.iter().map(|e| (&e.0, e.1)).collect::<Vec<_>>()), replay),
                Some(e) => {
                    // layers wrap from the outside: the request meets the last applied first
                    let want: String = e.2.iter().rev().map(|t| format!("{t},")).collect();
                    let got = resp.headers().get("tags").cloned().unwrap_or_default();
                    if got != want {
                        out.violation("wrong-route-layers", format!("route {route:?} (pattern {:?}): passed through layers [{got}] but the layers applied after its registration are [{want}]", e.0), replay);
                    }
                }
            }
        }
    }
    }
    let _ = n_subjects;
    out.class(format!("routes={} layered={} matched>0={}", table.len().min(6), table.iter().filter(|e| !e.2.is_empty()).count().min(4), matched > 0));
    if out.samples.len() < 2 && prog.len() >= 3 {
        out.sample(json!({"program": pj(), "reference_table": table.iter().map(|e| json!([e.0, e.1, e.2])).collect::<Vec<_>>()}));
    }
}

impl Check for C16 {
    fn meta(&self, _tier: Tier) -> CheckMeta {
        CheckMeta {
            property: "C16",
            level: "model_checking",
            rule: "every table-building program over {route(p in 7 patterns), route_layer(fresh tag), merge(one of 5 sub-tables incl. nested merges and layers), add_rpc_service(3 names), keep a clone aside (it must go on routing as it did when taken, whatever is added to the original afterwards)} up to depth 3 (quick) / 4 (thorough) = states, x every request string over {/ a b * : . space é NUL} (plus long routes: a two-byte character at every byte offset 0..130, lengths around 2^6..2^16, bare and behind every wildcard prefix) up to length 4 plus prefix/suffix mutations of every registered pattern = evaluations, on the real Router against a reference matcher (routes of length <= 1 and every 97th other one are first passed through the real request encoder and decoder, as a remote's route would be); plus loom (harness/lockx routes): two threads building tables of 1-4 routes (with and without merge) at the same time, a scheduling point before every access of the shared route-id counter (hook H9), preemption bound 3 | 4, every path must be answered by its own service; tables that the router rejects at build time (documented conflict panic) are counted and skipped; distinct = distinct (table size, layered routes, any match)".into(),
            assumptions: vec!["overlapping patterns cannot coexist in one table (the router rejects them at build time), so the reference match is unique".into()],
            exhaustive: true,
        }
    }

    fn units(&self, tier: Tier) -> Vec<Value> {
        // one unit per first two operations
        let a = alphabet();
        let mut u = vec![json!({"prefix": [], "depth": 1, "len": 4, "on_death": "router-aborts-process"})];
        for (i, _) in a.iter().enumerate() {
            for (j, _) in a.iter().enumerate() {
                u.push(json!({"prefix": [i, j], "depth": tier.pick(3, 4), "len": 4, "on_death": "router-aborts-process"}));
            }
        }
        // tables built on two threads at the same time (they share the route-id counter): loom
        u.push(json!({"kind":"threads","tier":tier.as_str(),"subset":"routes"}));
        u
    }

    fn run_unit(&self, _tier: Tier, unit: &Value, out: &mut UnitResult) {
        if unit["kind"] == "threads" {
            super::c04::run_threads(unit, out);
            return;
        }
        let a = alphabet();
        let prefix: Vec<Op> = unit["prefix"].as_array().unwrap().iter().map(|i| a[i.as_u64().unwrap() as usize].clone()).collect();
        let depth = unit["depth"].as_u64().unwrap() as usize;
        let len = unit["len"].as_u64().unwrap() as usize;
        if prefix.is_empty() {
            // depth-0 and depth-1 programs
            run_program(&[], len, out, unit);
            for op in &a {
                run_program(&[op.clone()], len, out, unit);
            }
            return;
        }
        let mut stack = vec![prefix];
        while let Some(p) = stack.pop() {
            run_program(&p, len, out, unit);
            if p.len() < depth {
                for op in a.iter().rev() {
                    let mut n = p.clone();
                    n.push(op.clone());
                    stack.push(n);
                }
            }
        }
    }

    fn replay(&self, replay: &Value) -> String {
        let a = alphabet();
        let prog: Vec<Op> = replay["program"].as_array().unwrap().iter().map(|v| a.iter().find(|o| op_json(o) == *v).cloned().unwrap()).collect();
        let mut out = UnitResult::default();
        run_program(&prog, 4, &mut out, &replay["unit"]);
        format!("program {}\nwanted route {}\n{} requests, violations:\n{:#?}", replay["program"], replay["route"], out.evaluations, out.violations.iter().map(|v| (&v.key, &v.message)).collect::<Vec<_>>())
    }

    fn finish(&self, _tier: Tier, total: &mut UnitResult) -> Map<String, Value> {
        if !total.classes.contains_key("build-rejected") {
            total.machinery_errors.push("vacuous: no conflicting table was generated".into());
        }
        if !total.classes.keys().any(|k| k.contains("layered=1") || k.contains("layered=2")) {
            total.machinery_errors.push("vacuous: no table with layered routes".into());
        }
        Map::new()
    }
}
