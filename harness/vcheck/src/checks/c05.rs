//! C05 — simultaneous mutual dials converge on one shared connection.
//!
//! Simnet part: two real networks dial each other with every start offset, per-direction latency
//! and identity order of a grid; datagram fates over the whole exchange are explored within a
//! deviation bound.

use crate::report::{CheckMeta, UnitResult};
use crate::simrun::{explore_sim, sim_exec, Judged};
use crate::world::*;
use crate::{Check, Tier};
use anemo::types::PeerEvent;
use futures::FutureExt;
use serde_json::{json, Map, Value};
use std::sync::Arc;

pub struct C05;

#[derive(Clone, Debug)]
pub struct Obs {
    pub a_greater: bool,
    pub connect_a: Result<(), String>,
    pub connect_b: Result<(), String>,
    pub peers_a: usize,
    pub peers_b: usize,
    pub lists_ok: bool,
    pub ev_a: Vec<String>,
    pub ev_b: Vec<String>,
    pub alternation: Result<(), String>,
    pub rpc_ab: Result<(), String>,
    pub rpc_ba: Result<(), String>,
    /// origin of the surviving connection as seen at a / at b ("inbound"/"outbound")
    pub origin_at_a: Option<String>,
    pub origin_at_b: Option<String>,
    pub late_events: Vec<String>,
    pub log: Vec<String>,
    pub trace_bad: Vec<(String, String)>,
    pub trace_calls: u64,
}

fn params(unit: &Value) -> (bool, i64, u64, u64, usize, usize) {
    (
        unit["a_greater"].as_bool().unwrap(),
        unit["offset_ms"].as_i64().unwrap(),
        unit["lat_ab_ms"].as_u64().unwrap(),
        unit["lat_ba_ms"].as_u64().unwrap(),
        unit["bound"].as_u64().unwrap() as usize,
        unit["fate_budget"].as_u64().unwrap() as usize,
    )
}

/// keys (small, big) by the byte-wise lexicographic order of their identities — the order the
/// property names; the subject's own `Ord` is deliberately not used here. `class` selects a pair
/// whose first differing bytes stand in a particular relation:
///   d80     they are exactly 0x80 apart          cross   one is below 0x80, the other at or above it
///   wide    they are at least 0xf0 apart         eqfirst the identities agree on their first byte
pub fn ordered_keys_for(class: &str) -> (u8, u8) {
    static IDS: std::sync::OnceLock<Vec<[u8; 32]>> = std::sync::OnceLock::new();
    let ids = IDS.get_or_init(|| (0..=255u8).map(|k| peer_id_of_key(k).0).collect());
    let fits = |a: &[u8; 32], b: &[u8; 32]| -> bool {
        // a < b byte-wise
        let d = (0..32).find(|i| a[*i] != b[*i]).unwrap();
        let (x, y) = (a[d], b[d]);
        match class {
            "d80" => y.wrapping_sub(x) == 0x80,
            "cross" => x < 0x80 && y >= 0x80 && y - x < 0x40,
            "wide" => y - x >= 0xf0,
            "eqfirst" => d >= 1,
            _ => true,
        }
    };
    if class.is_empty() || class == "default" {
        let (a, b) = (1u8, 2u8);
        return if ids[a as usize] < ids[b as usize] { (a, b) } else { (b, a) };
    }
    for i in 1..=255usize {
        for j in 1..=255usize {
            if ids[i] < ids[j] && fits(&ids[i], &ids[j]) {
                return (i as u8, j as u8);
            }
        }
    }
    panic!("no key pair of class {class}");
}

pub async fn scenario_pub(sim: Arc<Sim>, unit: Value) -> Obs {
    scenario(sim, unit).await
}

async fn scenario(sim: Arc<Sim>, unit: Value) -> Obs {
    let (a_greater, off_ms, lat_ab, lat_ba, _bound, fate_budget) = params(&unit);
    let (small, big) = ordered_keys_for(unit["ids"].as_str().unwrap_or(""));
    let (ka, kb) = if a_greater { (big, small) } else { (small, big) };
    let background = unit["dial"].as_str() == Some("background");
    let (a, b) = if background {
        // both sides dial from their connectivity check (High-affinity known peers); the phase
        // between the two checks is the start offset
        anemo::verif::set_jitter_override(Some(std::time::Duration::ZERO));
        let mut c = anemo::Config::default();
        c.connectivity_check_interval_ms = Some(200);
        let (first, second) = if off_ms < 0 { (kb, ka) } else { (ka, kb) };
        let n1 = sim.start(&NodeSpec::new(first).config(c.clone())).unwrap();
        tokio::time::sleep(ms(off_ms.unsigned_abs())).await;
        let n2 = sim.start(&NodeSpec::new(second).config(c)).unwrap();
        if off_ms < 0 {
            (n2, n1)
        } else {
            (n1, n2)
        }
    } else {
        // optionally one side runs with a connection limit that leaves exactly one free slot
        let lim = |side: &str| {
            let mut c = anemo::Config::default();
            if unit["limit_side"].as_str() == Some(side) {
                c.max_concurrent_connections = Some(1);
            }
            c
        };
        (sim.start(&NodeSpec::new(ka).config(lim("a"))).unwrap(), sim.start(&NodeSpec::new(kb).config(lim("b"))).unwrap())
    };
    let (na, nb) = (sim.node_of(&a), sim.node_of(&b));
    sim.fabric.set_latency_us(na, nb, lat_ab * 1000);
    sim.fabric.set_latency_us(nb, na, lat_ba * 1000);
    sim.fabric.set_reorder_delay_us((lat_ab + lat_ba) * 1000 * 2 + 1000);
    let (mut ea, snap_a) = a.subscribe().unwrap();
    let (mut eb, snap_b) = b.subscribe().unwrap();
    sim.fabric.set_fate_budget(fate_budget);
    let (aa, ba) = (a.local_addr(), b.local_addr());
    let (a2, b2) = (a.clone(), b.clone());
    if background {
        a.known_peers().insert(known_peer(b.peer_id(), anemo::types::PeerAffinity::High, vec![ba]));
        b.known_peers().insert(known_peer(a.peer_id(), anemo::types::PeerAffinity::High, vec![aa]));
    }
    let ha = tokio::spawn(async move {
        if background {
            // stands for "the background dial": resolved once this side lists the other
            for _ in 0..300 {
                if !a2.peers().is_empty() {
                    return Ok(a2.peers()[0]);
                }
                tokio::time::sleep(ms(10)).await;
            }
            return Err(anyhow::anyhow!("never connected"));
        }
        if off_ms < 0 {
            tokio::time::sleep(ms((-off_ms) as u64)).await;
        }
        a2.connect(ba).await
    });
    let hb = tokio::spawn(async move {
        if background {
            for _ in 0..300 {
                if !b2.peers().is_empty() {
                    return Ok(b2.peers()[0]);
                }
                tokio::time::sleep(ms(10)).await;
            }
            return Err(anyhow::anyhow!("never connected"));
        }
        if off_ms > 0 {
            tokio::time::sleep(ms(off_ms as u64)).await;
        }
        b2.connect(aa).await
    });
    let ra = ha.await.unwrap();
    let rb = hb.await.unwrap();
    let mut log = vec![];
    log.push(format!("t={}us connect a->b: {:?}", sim.now_us(), ra.as_ref().map(|p| sim.label(p)).map_err(|e| e.to_string())));
    log.push(format!("connect b->a: {:?}", rb.as_ref().map(|p| sim.label(p)).map_err(|e| e.to_string())));
    // quiescence: well inside the 30 s idle timeout
    tokio::time::sleep(ms(5_000)).await;
    sim.fabric.set_fate_budget(0);
    let ev_a_raw = drain_events(&mut ea);
    let ev_b_raw = drain_events(&mut eb);
    let (pa, pb) = (a.peers(), b.peers());
    let lists_ok = pa == vec![b.peer_id()] && pb == vec![a.peer_id()];
    let alternation = (|| {
        let fa = check_alternation(&ev_a_raw, &snap_a).map_err(|e| format!("at a: {e}"))?;
        let fb = check_alternation(&ev_b_raw, &snap_b).map_err(|e| format!("at b: {e}"))?;
        if sorted(fa) != sorted(pa.clone()) {
            return Err("snapshot+events at a does not reproduce a.peers()".to_string());
        }
        if sorted(fb) != sorted(pb.clone()) {
            return Err("snapshot+events at b does not reproduce b.peers()".to_string());
        }
        Ok(())
    })();
    let rpc = |from: anemo::Network, to: anemo::PeerId, id: &'static str| async move {
        match tokio::time::timeout(ms(2_000), from.rpc(to, Sim::request(id))).await {
            Err(_) => Err("timed out".to_string()),
            Ok(Err(e)) => Err(e.to_string()),
            Ok(Ok(r)) => {
                if r.headers().get("id").map(|s| s.as_str()) == Some(id) {
                    Ok(())
                } else {
                    Err("wrong response".to_string())
                }
            }
        }
    };
    let rpc_ab = rpc(a.clone(), b.peer_id(), "ab").await;
    let rpc_ba = rpc(b.clone(), a.peer_id(), "ba").await;
    let (origin_at_a, origin_at_b) = {
        let reqs = sim.svc.requests.lock().unwrap();
        (
            reqs.iter().find(|r| r.node == na).and_then(|r| r.origin.clone()),
            reqs.iter().find(|r| r.node == nb).and_then(|r| r.origin.clone()),
        )
    };
    tokio::time::sleep(ms(3_000)).await;
    let mut late = vec![];
    for e in drain_events(&mut ea) {
        late.push(format!("a:{}", event_str(&sim, &e)));
    }
    for e in drain_events(&mut eb) {
        late.push(format!("b:{}", event_str(&sim, &e)));
    }
    let (trace_bad, trace_calls) = check_registry_traces(&sim);
    // background variant: "this side's dial succeeded" = its registry was handed an outbound
    // connection (hook H4 tap); there is no connect() result to read
    let (mut ra, mut rb) = (ra, rb);
    if background {
        let taps = sim.taps.lock().unwrap();
        let dialed = |own: anemo::PeerId| taps.iter().any(|t| matches!(&t.1, anemo::verif::TapEvent::AddCall { own: o, origin, .. } if *o == own && origin.to_string() == "outbound"));
        if ra.is_ok() && !dialed(a.peer_id()) {
            ra = Err(anyhow::anyhow!("connected, but not through its own dial"));
        }
        if rb.is_ok() && !dialed(b.peer_id()) {
            rb = Err(anyhow::anyhow!("connected, but not through its own dial"));
        }
    }
    let es = |v: &Vec<PeerEvent>| v.iter().map(|e| event_str(&sim, e)).collect::<Vec<_>>();
    log.push(format!("events a: {:?}", es(&ev_a_raw)));
    log.push(format!("events b: {:?}", es(&ev_b_raw)));
    log.push(format!("peers a={} b={}", pa.len(), pb.len()));
    log.push(format!("rpc a->b {rpc_ab:?}, b->a {rpc_ba:?}"));
    log.push(format!("origin at a {origin_at_a:?}, at b {origin_at_b:?}"));
    log.push(format!("late events {late:?}"));
    Obs {
        a_greater,
        connect_a: ra.map(|_| ()).map_err(|e| e.to_string()),
        connect_b: rb.map(|_| ()).map_err(|e| e.to_string()),
        peers_a: pa.len(),
        peers_b: pb.len(),
        lists_ok,
        ev_a: es(&ev_a_raw),
        ev_b: es(&ev_b_raw),
        alternation,
        rpc_ab,
        rpc_ba,
        origin_at_a,
        origin_at_b,
        late_events: late,
        log,
        trace_bad,
        trace_calls,
    }
}

fn judge(o: &Obs) -> Judged {
    let mut v = vec![];
    let both_failed = o.connect_a.is_err() && o.connect_b.is_err();
    let class = format!(
        "ca={} cb={} ea={:?} eb={:?} survivor_dialer={}",
        o.connect_a.is_ok(),
        o.connect_b.is_ok(),
        o.ev_a,
        o.ev_b,
        match (o.origin_at_a.as_deref(), o.origin_at_b.as_deref()) {
            (Some("outbound"), Some("inbound")) => "a",
            (Some("inbound"), Some("outbound")) => "b",
            _ => "?",
        }
    );
    if both_failed {
        // the loss pattern did not let any handshake finish: outside the property's premise
        return Judged {
            class: format!("excluded(both dials failed) {class}"),
            violations: v,
            sample: None,
        };
    }
    v.extend(o.trace_bad.clone());
    if !o.lists_ok {
        v.push((
            "not-converged".to_string(),
            format!(
                "after quiescence a lists {} peers and b lists {} (each must list exactly the other)",
                o.peers_a, o.peers_b
            ),
        ));
    }
    if let Err(e) = &o.alternation {
        v.push(("event-log".to_string(), e.clone()));
    }
    if let Err(e) = &o.rpc_ab {
        v.push(("rpc-fails".to_string(), format!("rpc a->b after quiescence: {e}")));
    }
    if let Err(e) = &o.rpc_ba {
        v.push(("rpc-fails".to_string(), format!("rpc b->a after quiescence: {e}")));
    }
    if !o.late_events.is_empty() {
        v.push((
            "late-events".to_string(),
            format!("events after quiescence: {:?}", o.late_events),
        ));
    }
    if o.rpc_ab.is_ok() && o.rpc_ba.is_ok() {
        match (o.origin_at_a.as_deref(), o.origin_at_b.as_deref()) {
            (Some(x), Some(y)) if x != y => {
                // which side dialed the survivor
                let a_dialed = x == "outbound";
                let greater_dial_ok = if o.a_greater {
                    o.connect_a.is_ok()
                } else {
                    o.connect_b.is_ok()
                };
                if greater_dial_ok && a_dialed != o.a_greater {
                    v.push((
                        "wrong-survivor".to_string(),
                        format!(
                            "the dial of the greater identity succeeded but the surviving connection was dialed by the lesser one (origin at a: {x}, at b: {y}, a greater: {})",
                            o.a_greater
                        ),
                    ));
                }
            }
            (x, y) => v.push((
                "split-survivor".to_string(),
                format!("the two sides do not use the same connection: origin at a {x:?}, at b {y:?}"),
            )),
        }
    }
    Judged {
        class,
        violations: v,
        sample: Some(json!(o.log)),
    }
}

/// `PeerId`'s order against the byte-wise lexicographic order, for every pair of byte values at
/// position `pos` (equal bytes before it, tails ordered the other way round).
fn order_unit(unit: &Value, out: &mut UnitResult) {
    use std::cmp::Ordering;
    let pos = unit["pos"].as_u64().unwrap() as usize;
    let mut bad = 0u64;
    for x in 0..=255u8 {
        for y in 0..=255u8 {
            let mut a = [0x55u8; 32];
            let mut b = [0x55u8; 32];
            a[pos] = x;
            b[pos] = y;
            for i in pos + 1..32 {
                // tails contradict the deciding byte
                let (ta, tb) = if x < y { (0xff, 0x00) } else { (0x00, 0xff) };
                a[i] = ta;
                b[i] = tb;
            }
            if x == y && pos < 31 {
                // equal deciding byte: the tails decide
                a[31] = 0x7f;
                b[31] = 0xff;
                for i in pos + 1..31 {
                    a[i] = 0x55;
                    b[i] = 0x55;
                }
            }
            let (pa, pb) = (anemo::PeerId(a), anemo::PeerId(b));
            let want = a.cmp(&b);
            let got = pa.cmp(&pb);
            let consistent = pa.partial_cmp(&pb) == Some(got)
                && (pa < pb) == (got == Ordering::Less)
                && (pa > pb) == (got == Ordering::Greater)
                && (pa == pb) == (got == Ordering::Equal)
                && pb.cmp(&pa) == got.reverse()
                && (pb < pa) == (got == Ordering::Greater);
            out.evaluations += 1;
            out.states += 1;
            *out.classes.entry(format!("order {want:?}")).or_default() += 1;
            if got != want || !consistent {
                bad += 1;
                if bad <= 3 {
                    out.violation(
                        "identity-order",
                        format!("identities that first differ at byte {pos} with values {x:#04x} and {y:#04x}: cmp gives {got:?} (reverse {:?}, a<b {}, b<a {}), the byte-wise lexicographic order is {want:?}; the tie-break of a mutual dial needs one total order both sides agree on", pb.cmp(&pa), pa < pb, pb < pa),
                        json!({"unit": unit, "x": x, "y": y}),
                    );
                }
            }
        }
    }
}

impl Check for C05 {
    fn meta(&self, _tier: Tier) -> CheckMeta {
        CheckMeta {
            property: "C05",
            level: "model_checking",
            rule: "simnet: every (identity order x start offset x latency a->b x latency b->a) of the grid, each explored over datagram fates {deliver, drop, duplicate, delay} within the deviation bound; a case is an execution, distinct = distinct (connect results, event histories at both sides, surviving dialer)".into(),
            assumptions: vec![
                "quinn, rustls and tokio are executed for real but their internal races are not explored".into(),
                "virtual time (tokio paused clock); randomness fixed by the seed via the getrandom shim".into(),
            ],
            exhaustive: true,
        }
    }

    fn units(&self, tier: Tier) -> Vec<Value> {
        let mut u = vec![];
        for a_greater in [false, true] {
            for off in [-12i64, -7, -3, 0, 3, 7, 12] {
                for lab in [1u64, 5, 9] {
                    for lba in [1u64, 5, 9] {
                        // quick: bound 0 everywhere and bound 1 on the symmetric-latency diagonal
                        let diag = lab == lba && (off == 0 || off == 3 || off == -7);
                        let bound = match tier {
                            Tier::Quick => 1 + usize::from(diag && lab == 5),
                            Tier::Thorough => 2 + usize::from(diag && lab == 5 && off == 0),
                        };
                        u.push(json!({"kind":"simnet","a_greater":a_greater,"offset_ms":off,"lat_ab_ms":lab,"lat_ba_ms":lba,"bound":bound,"fate_budget":60}));
                    }
                }
            }
        }
        // one side with a connection limit of 1 (one free slot)
        for a_greater in [false, true] {
            for off in [-7i64, -3, 0, 3, 7] {
                for (lab, lba) in [(1u64, 1u64), (5, 5), (9, 1), (1, 9)] {
                    for side in ["a", "b"] {
                        u.push(json!({"kind":"simnet","limit_side":side,"a_greater":a_greater,"offset_ms":off,"lat_ab_ms":lab,"lat_ba_ms":lba,"bound":tier.pick(0, 1),"fate_budget":60}));
                    }
                }
            }
        }
        // the same grid with both dials made by the connectivity check (High-affinity known peers)
        for a_greater in [false, true] {
            for off in [-12i64, -3, 0, 3, 12] {
                for (lab, lba) in [(1u64, 1u64), (5, 5), (1, 9), (9, 1)] {
                    u.push(json!({"kind":"simnet","dial":"background","a_greater":a_greater,"offset_ms":off,"lat_ab_ms":lab,"lat_ba_ms":lba,"bound":tier.pick(1, 2),"fate_budget":60}));
                }
            }
        }
        // identity pairs whose first differing bytes stand in a particular relation
        for ids in ["d80", "cross", "wide", "eqfirst"] {
            for a_greater in [false, true] {
                for (off, lab, lba) in [(0i64, 5u64, 5u64), (3, 1, 9), (-3, 9, 1)] {
                    if tier == Tier::Quick && off != 0 {
                        continue;
                    }
                    u.push(json!({"kind":"simnet","ids":ids,"a_greater":a_greater,"offset_ms":off,"lat_ab_ms":lab,"lat_ba_ms":lba,"bound":tier.pick(1, 2),"fate_budget":60}));
                }
            }
        }
        // the total order on identities itself: every pair of byte values at the first differing
        // position, at four positions, with the tails ordered the other way round
        for pos in [0usize, 1, 15, 31] {
            u.push(json!({"kind":"order","pos":pos}));
        }
        u.extend(super::c05pair::units(tier == Tier::Thorough));
        // one side's registry under real threads: the losing connection's handler exit against
        // the registration of the other connection (loom, harness/lockx)
        u.push(json!({"kind":"threads","tier":tier.as_str(),"subset":"pair"}));
        u
    }

    fn run_unit(&self, _tier: Tier, unit: &Value, out: &mut UnitResult) {
        if unit["kind"] == "threads" {
            super::c04::run_threads(unit, out);
            return;
        }
        if unit["kind"] == "order" {
            order_unit(unit, out);
            return;
        }
        if unit["kind"] == "pair" {
            let before = (out.states, out.transitions);
            super::c05pair::run_unit(unit, out);
            let _ = before;
            return;
        }
        let (_, _, _, _, bound, _) = params(unit);
        let u = unit.clone();
        explore_sim(
            out,
            crate::seed(),
            unit,
            5_000,
            bound,
            200_000,
            true,
            move |sim| scenario(sim, u.clone()).boxed(),
            |o: &Obs, _p, _c| judge(o),
        );
        out.states += out.evaluations;
        out.transitions += out.counters.get("datagrams").copied().unwrap_or(0);
    }

    fn replay(&self, replay: &Value) -> String {
        let unit = replay["unit"].clone();
        if unit["kind"] == "order" {
            let mut out = UnitResult::default();
            order_unit(&unit, &mut out);
            return format!("unit {unit}\nviolations: {:?}", out.violations.iter().map(|v| (&v.key, &v.message)).collect::<Vec<_>>());
        }
        if unit["kind"] == "pair" {
            let mut out = UnitResult::default();
            super::c05pair::run_unit(&unit, &mut out);
            return format!("unit {unit}\nviolations: {:?}\nclasses: {:?}", out.violations.iter().map(|v| (&v.key, &v.message)).collect::<Vec<_>>(), out.classes);
        }
        let choices: Vec<u32> = replay["choices"]
            .as_array()
            .map(|a| a.iter().map(|x| x.as_u64().unwrap() as u32).collect())
            .unwrap_or_default();
        let seed = replay["seed"].as_u64().unwrap_or(1);
        let u = unit.clone();
        let o = sim_exec(seed, &choices, 5_000, move |sim| scenario(sim, u).boxed());
        match o.run {
            Some(r) => {
                let j = judge(&r.obs);
                format!(
                    "unit {unit}\nchoices {choices:?}\n{}\nclass: {}\nviolations: {:?}\npanics: {:?}",
                    r.obs.log.join("\n"),
                    j.class,
                    j.violations,
                    o.panics
                )
            }
            None => format!("execution hung={} panics={:?}", o.hung, o.panics),
        }
    }

    fn finish(&self, _tier: Tier, total: &mut UnitResult) -> Map<String, Value> {
        let mut m = Map::new();
        let both_ok = total
            .classes
            .keys()
            .filter(|k| k.starts_with("ca=true cb=true"))
            .count();
        m.insert("classes_with_both_dials_ok".into(), json!(both_ok));
        let pair_paths = total.counters.get("pair_paths_to_quiescence").copied().unwrap_or(0);
        if pair_paths == 0 && total.violations.is_empty() {
            total.machinery_errors.push("vacuous exploration: the pair model reached no quiescent end state".into());
        }
        if both_ok < 2 {
            total.machinery_errors.push(format!(
                "vacuous exploration: only {both_ok} outcome classes in which both dials completed"
            ));
        }
        m
    }
}
