//! C10 — inbound admission follows peer affinity and the connection limit.
//!
//! One listener and four dialers; every history of non-overlapping arrivals, departures, explicit
//! outbound dials, background-dial ticks and runtime affinity changes up to a depth, for every
//! limit value and a menu of affinity tables, compared after every step with a 15-line reference
//! admission model written from the statement.

use crate::report::{CheckMeta, UnitResult};
use crate::simrun::{explore_sim, sim_exec, Judged};
use crate::world::*;
use crate::{Check, Tier};
use anemo::types::PeerAffinity;
use anemo::PeerId;
use futures::FutureExt;
use serde_json::{json, Map, Value};
use std::collections::BTreeSet;
use std::sync::Arc;

pub struct C10;

const D: usize = 4;

#[derive(Clone, Copy, Debug, PartialEq, Eq)]
enum Aff {
    Unknown,
    High,
    Allowed,
    Never,
}

fn aff_of(s: &str) -> Aff {
    match s {
        "high" => Aff::High,
        "allowed" => Aff::Allowed,
        "never" => Aff::Never,
        _ => Aff::Unknown,
    }
}

#[derive(Clone, Copy, Debug, PartialEq, Eq)]
enum Op {
    Arrive(usize),
    /// the listener disconnects dialer d
    Kick(usize),
    /// dialer d disconnects from the listener
    Leave(usize),
    /// the listener dials d explicitly
    LDial(usize),
    /// one background connectivity check on the listener
    Tick,
    SetAff(usize, Aff),
}

fn op_json(o: &Op) -> Value {
    match *o {
        Op::Arrive(d) => json!(["arrive", d]),
        Op::Kick(d) => json!(["kick", d]),
        Op::Leave(d) => json!(["leave", d]),
        Op::LDial(d) => json!(["ldial", d]),
        Op::Tick => json!(["tick", 0]),
        Op::SetAff(d, a) => json!([match a { Aff::Unknown => "aff-unknown", Aff::High => "aff-high", Aff::Allowed => "aff-allowed", Aff::Never => "aff-never" }, d]),
    }
}

fn parse_op(v: &Value) -> Op {
    let d = v[1].as_u64().unwrap() as usize;
    match v[0].as_str().unwrap() {
        "arrive" => Op::Arrive(d),
        "kick" => Op::Kick(d),
        "leave" => Op::Leave(d),
        "ldial" => Op::LDial(d),
        "tick" => Op::Tick,
        "aff-unknown" => Op::SetAff(d, Aff::Unknown),
        "aff-high" => Op::SetAff(d, Aff::High),
        "aff-allowed" => Op::SetAff(d, Aff::Allowed),
        _ => Op::SetAff(d, Aff::Never),
    }
}

fn alphabet() -> Vec<Op> {
    let mut v = vec![];
    for d in 0..D {
        v.push(Op::Arrive(d));
    }
    for d in 0..D {
        v.push(Op::Kick(d));
    }
    v.push(Op::Leave(0));
    v.push(Op::Leave(2));
    for d in [0, 1] {
        v.push(Op::LDial(d));
    }
    v.push(Op::Tick);
    for a in [Aff::Allowed, Aff::Never, Aff::Unknown, Aff::High] {
        v.push(Op::SetAff(0, a));
    }
    v
}

#[derive(Clone, Debug, Default)]
pub struct Obs {
    pub log: Vec<String>,
    pub violations: Vec<(String, String)>,
    pub shape: String,
}

async fn scenario(sim: Arc<Sim>, unit: Value) -> Obs {
    let mut o = Obs::default();
    let limit = unit["limit"].as_u64().map(|x| x as usize);
    let mut affs: Vec<Aff> = unit["affinities"].as_array().unwrap().iter().map(|a| aff_of(a.as_str().unwrap())).collect();
    let ops: Vec<Op> = unit["ops"].as_array().unwrap().iter().map(parse_op).collect();
    let mut lc = anemo::Config::default();
    lc.max_concurrent_connections = limit;
    lc.connectivity_check_interval_ms = Some(1_000);
    lc.connection_backoff_ms = Some(1_000);
    lc.max_connection_backoff_ms = Some(1_000);
    lc.connect_timeout_ms = Some(800);
    anemo::verif::set_jitter_override(Some(std::time::Duration::ZERO));
    let l = sim.start(&NodeSpec::new(10).config(lc)).unwrap();
    let mut dc = anemo::Config::default();
    dc.connectivity_check_interval_ms = Some(3_600_000);
    let ds: Vec<anemo::Network> = (0..D).map(|i| sim.start(&NodeSpec::new(20 + i as u8).config(dc.clone())).unwrap()).collect();
    let ids: Vec<PeerId> = ds.iter().map(|d| d.peer_id()).collect();
    let set_aff = |d: usize, a: Aff| match a {
        Aff::Unknown => {
            l.known_peers().remove(&ids[d]);
        }
        Aff::High => {
            l.known_peers().insert(known_peer(ids[d], PeerAffinity::High, vec![ds[d].local_addr()]));
        }
        Aff::Allowed => {
            l.known_peers().insert(known_peer(ids[d], PeerAffinity::Allowed, vec![ds[d].local_addr()]));
        }
        Aff::Never => {
            l.known_peers().insert(known_peer(ids[d], PeerAffinity::Never, vec![ds[d].local_addr()]));
        }
    };
    for d in 0..D {
        set_aff(d, affs[d]);
    }
    // optionally a High-affinity peer whose only address is a black hole: the listener keeps a
    // background dial to it in progress most of the time; it never counts as established
    let ghost_socket = std::net::UdpSocket::bind("127.0.0.1:0").unwrap();
    if unit["ghost"].as_bool().unwrap_or(false) {
        l.known_peers().insert(known_peer(peer_id_of_key(99), PeerAffinity::High, vec![ghost_socket.local_addr().unwrap()]));
    }
    // reference model: the set of dialers with an established connection to the listener
    let mut est: BTreeSet<usize> = BTreeSet::new();
    // The listener's connectivity check fires at start and then every whole second (jitter 0).
    // Operations run in slots at k s + 300 ms, so that every background check falls between two
    // slots; the model applies it at the slot boundary.
    let t_start = sim.now_us();
    let mut slot = 0u64;
    macro_rules! viol {
        ($k:expr, $($arg:tt)*) => { o.violations.push(($k.to_string(), format!($($arg)*))) };
    }
    let ctx = format!("[limit {limit:?}, affinities {:?}, ghost High peer {}{}]", unit["affinities"], unit["ghost"].as_bool().unwrap_or(false), if unit["broken_first"].as_bool().unwrap_or(false) { ", after an arrival that never completed the anemo handshake" } else { "" });
    // optionally the history starts with an arrival that gets through TLS but never completes the
    // anemo handshake (a dialer that grants no unidirectional stream and gives up after 400 ms):
    // it is never established, so it must not count against the limit afterwards
    let mut _broken_dialer = None;
    if unit["broken_first"].as_bool().unwrap_or(false) {
        slot += 1;
        let target = t_start + slot * 1_000_000 + 300_000;
        let now = sim.now_us();
        if target > now {
            tokio::time::sleep(std::time::Duration::from_micros(target - now)).await;
        }
        for d in 0..D {
            if affs[d] == Aff::High {
                est.insert(d);
            }
        }
        let mut bc = dc.clone();
        let mut q = anemo::QuicConfig::default();
        q.max_concurrent_uni_streams = Some(0);
        bc.quic = Some(q);
        bc.connect_timeout_ms = Some(400);
        let db = sim.start(&NodeSpec::new(30).config(bc)).unwrap();
        let r = tokio::time::timeout(ms(600), db.connect(l.local_addr())).await;
        if matches!(r, Ok(Ok(_))) {
            viol!("setup", "{ctx} the dialer that grants no unidirectional stream completed the handshake");
        }
        o.log.push(format!("prelude: an arrival that never completes the anemo handshake: {:?}", r.map(|r| r.map(|_| ()).map_err(|e| e.to_string()))));
        tokio::time::sleep(ms(100)).await;
        check_state(&sim, &l, &ds, &ids, &est, "the arrival that never completed its handshake", &ctx, &mut o);
        _broken_dialer = Some(db);
    }
    for (step, op) in ops.iter().enumerate() {
        // next slot; the background check(s) in between connect every High-affinity peer
        slot += 1;
        let target = t_start + slot * 1_000_000 + 300_000;
        let now = sim.now_us();
        if target > now {
            tokio::time::sleep(std::time::Duration::from_micros(target - now)).await;
        } else {
            viol!("setup", "step {step}: slot overrun ({} us late)", now - target);
        }
        for d in 0..D {
            if affs[d] == Aff::High {
                est.insert(d);
            }
        }
        check_state(&sim, &l, &ds, &ids, &est, &format!("the background check before step {step}"), &ctx, &mut o);
        match *op {
            Op::Arrive(d) => {
                let admit = matches!(affs[d], Aff::High | Aff::Allowed) || (affs[d] != Aff::Never && limit.map(|m| est.len() < m).unwrap_or(true));
                // odd dialers name the identity they expect to reach, even ones do not
                let r = if d % 2 == 1 {
                    tokio::time::timeout(ms(12_000), ds[d].connect_with_peer_id(l.local_addr(), l.peer_id())).await
                } else {
                    tokio::time::timeout(ms(12_000), ds[d].connect(l.local_addr())).await
                };
                let ok = matches!(r, Ok(Ok(_)));
                if ok != admit {
                    viol!(if admit { "wrongly-rejected" } else { "wrongly-admitted" }, "{ctx} step {step}: dialer d{d} ({:?}) arrives with {} established: connect {}, the admission rule says {}", affs[d], est.len(), if ok { "succeeded" } else { "failed" }, if admit { "admit" } else { "reject" });
                }
                if admit {
                    est.insert(d);
                }
                o.shape.push(if ok { 'A' } else { 'r' });
                o.log.push(format!("step {step}: arrive d{d} ({:?}), established before {}: {}", affs[d], est.len(), if ok { "admitted" } else { "rejected" }));
            }
            Op::Kick(d) => {
                let _ = l.disconnect(ids[d]);
                o.shape.push(if est.remove(&d) { 'K' } else { 'k' });
                o.log.push(format!("step {step}: listener disconnects d{d}"));
            }
            Op::Leave(d) => {
                let _ = ds[d].disconnect(l.peer_id());
                o.shape.push(if est.remove(&d) { 'L' } else { 'l' });
                o.log.push(format!("step {step}: d{d} disconnects"));
            }
            Op::LDial(d) => {
                let r = tokio::time::timeout(ms(12_000), l.connect(ds[d].local_addr())).await;
                let ok = matches!(r, Ok(Ok(_)));
                if !ok {
                    viol!("explicit-dial-blocked", "{ctx} step {step}: the listener's explicit dial to d{d} failed with {} established: {:?}", est.len(), r.map(|r| r.map_err(|e| e.to_string())));
                }
                est.insert(d);
                o.shape.push('O');
                o.log.push(format!("step {step}: listener dials d{d}: ok={ok}"));
            }
            Op::Tick => {
                // an empty slot: only the background check happens
                o.shape.push('T');
                o.log.push(format!("step {step}: tick"));
            }
            Op::SetAff(d, a) => {
                affs[d] = a;
                set_aff(d, a);
                o.shape.push('a');
                o.log.push(format!("step {step}: affinity of d{d} := {a:?}"));
            }
        }
        // arrivals are non-overlapping: settle, but stay clear of the next background check
        tokio::time::sleep(ms(150)).await;
        check_state(&sim, &l, &ds, &ids, &est, &format!("step {step} {:?}", op), &ctx, &mut o);
    }
    o.shape.push_str(&format!("|{}", est.len()));
    o
}

#[allow(clippy::too_many_arguments)]
fn check_state(_sim: &Sim, l: &anemo::Network, ds: &[anemo::Network], ids: &[PeerId], est: &BTreeSet<usize>, at: &str, ctx: &str, o: &mut Obs) {
    let listed: BTreeSet<PeerId> = l.peers().into_iter().collect();
    let want: BTreeSet<PeerId> = est.iter().map(|d| ids[*d]).collect();
    if listed != want {
        o.violations.push(("listing-vs-admission-model".into(), format!("{ctx} after {at}: the listener lists {} peers, the admission model says {} ({:?})", listed.len(), want.len(), est)));
    }
    for (d, n) in ds.iter().enumerate() {
        let lists = n.peers().contains(&l.peer_id());
        if lists != est.contains(&d) {
            o.violations.push(("dialer-view".into(), format!("{ctx} after {at}: dialer d{d} lists the listener = {lists}, model says {}", est.contains(&d))));
        }
    }
}

fn judge(o: &Obs) -> Judged {
    Judged { class: o.shape.clone(), violations: o.violations.clone(), sample: Some(json!(o.log)) }
}

fn tables() -> Vec<[&'static str; 4]> {
    vec![
        ["unknown", "unknown", "unknown", "unknown"],
        ["unknown", "unknown", "allowed", "never"],
        ["unknown", "high", "unknown", "never"],
        ["high", "allowed", "never", "unknown"],
        ["allowed", "unknown", "high", "unknown"],
        ["never", "never", "unknown", "allowed"],
    ]
}

impl Check for C10 {
    fn meta(&self, _tier: Tier) -> CheckMeta {
        CheckMeta {
            property: "C10",
            level: "model_checking",
            rule: "one listener + 4 dialers (real networks); every history over {arrive(d), listener disconnects d, d leaves, listener dials d explicitly, background tick, set affinity of d0 at runtime} up to the depth, for limit in {none,0,1,2,3} x 6 affinity tables, with and without a High-affinity 'ghost' peer at a black-hole address, and (limit 1, two tables, histories of three operations) after an arrival that gets through TLS but never completes the anemo handshake (a background dial in progress at most arrivals); after every step the listener's and every dialer's listing and every connect result are compared with the reference admission model; states = histories executed, transitions = operations; distinct = distinct outcome shapes".into(),
            assumptions: vec!["arrivals are non-overlapping (150 ms apart), as the property stipulates".into(), "tick jitter pinned to 0 through the jitter hook".into()],
            exhaustive: true,
        }
    }

    fn units(&self, tier: Tier) -> Vec<Value> {
        let mut u = vec![];
        let alpha = alphabet();
        let limits: Vec<Option<usize>> = vec![None, Some(0), Some(1), Some(2), Some(3)];
        for (ti, t) in tables().iter().enumerate() {
            for lim in &limits {
                if tier == Tier::Quick && ti >= 4 && lim.map(|l| l != 1).unwrap_or(true) {
                    continue;
                }
                // the same histories after an arrival that never completed its handshake
                if ti < 2 && *lim == Some(1) {
                    for a in &alpha {
                        for b in &alpha {
                            u.push(json!({"limit":lim,"affinities":t,"ghost":false,"broken_first":true,"ops":[op_json(a), op_json(b)],"expand":1}));
                        }
                    }
                }
                for ghost in [false, true] {
                    // the ghost variant on two tables (quick) / four tables (thorough), finite limits only
                    if ghost && (lim.is_none() || ti >= tier.pick(2, 4)) {
                        continue;
                    }
                    for a in &alpha {
                        for b in &alpha {
                            // units are (config, first two ops); the rest of the depth is expanded inside
                            u.push(json!({"limit":lim,"affinities":t,"ghost":ghost,"ops":[op_json(a), op_json(b)],"expand":tier.pick(1, 2)}));
                        }
                    }
                }
            }
        }
        u
    }

    fn run_unit(&self, _tier: Tier, unit: &Value, out: &mut UnitResult) {
        let base: Vec<Op> = unit["ops"].as_array().unwrap().iter().map(parse_op).collect();
        let expand = unit["expand"].as_u64().unwrap() as usize;
        let alpha = alphabet();
        let mut seqs = vec![base];
        for _ in 0..expand {
            let mut next = vec![];
            for s in &seqs {
                // also keep the shorter history itself
                for a in &alpha {
                    let mut n = s.clone();
                    n.push(*a);
                    next.push(n);
                }
            }
            seqs = next;
        }
        for s in seqs {
            // prune histories that cannot tell anything new: two consecutive identical set-affinity
            let mut u = unit.clone();
            u["ops"] = json!(s.iter().map(op_json).collect::<Vec<_>>());
            u["expand"] = json!(0);
            let u2 = u.clone();
            explore_sim(out, crate::seed(), &u, 1_000, 0, 1, true, move |sim| scenario(sim, u2.clone()).boxed(), |o: &Obs, _p, _c| judge(o));
            out.states += 1;
            out.transitions += s.len() as u64;
            out.traces_validated += 1;
        }
    }

    fn replay(&self, replay: &Value) -> String {
        let unit = replay["unit"].clone();
        let seed = replay["seed"].as_u64().unwrap_or(1);
        let u = unit.clone();
        let o = sim_exec(seed, &[], 1_000, move |sim| scenario(sim, u).boxed());
        match o.run {
            Some(r) => format!("unit {unit}\n{}\nshape {}\nviolations {:#?}\npanics {:?}", r.obs.log.join("\n"), r.obs.shape, r.obs.violations, o.panics),
            None => format!("execution hung={} panics={:?}", o.hung, o.panics),
        }
    }

    fn finish(&self, _tier: Tier, total: &mut UnitResult) -> Map<String, Value> {
        let all: String = total.classes.keys().cloned().collect::<Vec<_>>().join(" ");
        for (c, what) in [('r', "a rejected arrival"), ('A', "an admitted arrival"), ('O', "an explicit outbound dial"), ('T', "a background tick")] {
            if !all.contains(c) {
                total.machinery_errors.push(format!("vacuous: no history with {what}"));
            }
        }
        Map::new()
    }
}
