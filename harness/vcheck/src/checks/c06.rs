//! C06 — a connected hostile peer cannot crash or stall the network.
//!
//! An adversary with a valid identity (a raw QUIC endpoint) is admitted by the victim and then
//! misbehaves on its streams in every way of a menu, while an honest peer has RPCs in flight and
//! the adversary itself runs a well-formed RPC on another stream.

use crate::adversary::{decode_response, encode_request, Adversary, Identity};
use crate::report::{CheckMeta, UnitResult};
use crate::simrun::{explore_sim, sim_exec, Judged};
use crate::world::*;
use crate::{Check, Tier};
use futures::FutureExt;
use serde_json::{json, Map, Value};
use std::sync::Arc;

pub struct C06;

const V: u8 = 51;
const H: u8 = 52;
const Y: u8 = 53;
const BIDI_LIMIT: u64 = 6;

#[derive(Clone, Debug, Default)]
pub struct Obs {
    pub log: Vec<String>,
    pub violations: Vec<(String, String)>,
    pub class: String,
}

fn frames(header: &[u8], body_len_field: u32, body: &[u8]) -> Vec<u8> {
    let mut out = b"anemo\x00\x01\x00".to_vec();
    out.extend_from_slice(&(header.len() as u32).to_be_bytes());
    out.extend_from_slice(header);
    out.extend_from_slice(&body_len_field.to_be_bytes());
    out.extend_from_slice(body);
    out
}

fn bincode_header(route: &[u8], entries: &[(&[u8], &[u8])]) -> Vec<u8> {
    let mut h = (route.len() as u64).to_le_bytes().to_vec();
    h.extend_from_slice(route);
    h.extend_from_slice(&(entries.len() as u64).to_le_bytes());
    for (k, v) in entries {
        h.extend_from_slice(&(k.len() as u64).to_le_bytes());
        h.extend_from_slice(k);
        h.extend_from_slice(&(v.len() as u64).to_le_bytes());
        h.extend_from_slice(v);
    }
    h
}

/// (name, bytes, well_formed: the victim should serve it)
pub fn payloads() -> Vec<(String, Vec<u8>, bool)> {
    let good = encode_request("/echo", &[("id", "adv-p"), ("h-k", "v")], b"payload");
    let mut v: Vec<(String, Vec<u8>, bool)> = vec![("valid request".into(), good.clone(), true)];
    for cut in [0usize, 1, 5, 7, 8, 9, 11, 12, 13, 20, good.len() - 12, good.len() - 11, good.len() - 8, good.len() - 7, good.len() - 1] {
        v.push((format!("valid request cut at {cut}"), good[..cut.min(good.len())].to_vec(), false));
    }
    v.push(("64 bytes of 0xff".into(), vec![0xff; 64], false));
    v.push(("64 KiB of zeros".into(), vec![0; 65536], false));
    v.push(("wrong tag".into(), [b"anemp\x00\x01\x00".to_vec(), good[8..].to_vec()].concat(), false));
    v.push(("version 2".into(), [b"anemo\x00\x02\x00".to_vec(), good[8..].to_vec()].concat(), false));
    v.push(("reserved byte set".into(), [b"anemo\x00\x01\x01".to_vec(), good[8..].to_vec()].concat(), false));
    for len in [0xffff_ffffu32, 0x8000_0000, 8 * 1024 * 1024 + 1, 8 * 1024 * 1024, 1_000_000] {
        let mut b = b"anemo\x00\x01\x00".to_vec();
        b.extend_from_slice(&len.to_be_bytes());
        b.extend_from_slice(b"tiny");
        v.push((format!("header length prefix {len} with 4 bytes of data"), b, false));
        v.push((format!("body length prefix {len} with 4 bytes of data"), frames(&bincode_header(b"/echo", &[(b"id", b"adv-p")]), len, b"tiny"), false));
    }
    v.push(("zero-length header frame".into(), frames(&[], 0, &[]), false));
    v.push(("header frame of bincode garbage".into(), frames(&[0xab; 40], 3, b"abc"), false));
    let mut huge_str = u64::MAX.to_le_bytes().to_vec();
    huge_str.extend_from_slice(b"/echo");
    v.push(("route string claiming u64::MAX bytes".into(), frames(&huge_str, 0, &[]), false));
    let mut huge_map = 5u64.to_le_bytes().to_vec();
    huge_map.extend_from_slice(b"/echo");
    huge_map.extend_from_slice(&(u64::MAX / 2).to_le_bytes());
    v.push(("header map claiming 2^62 entries".into(), frames(&huge_map, 0, &[]), false));
    let mut big_map = 5u64.to_le_bytes().to_vec();
    big_map.extend_from_slice(b"/echo");
    big_map.extend_from_slice(&(1u64 << 32).to_le_bytes());
    v.push(("header map claiming 2^32 entries".into(), frames(&big_map, 0, &[]), false));
    v.push(("route is not UTF-8".into(), frames(&bincode_header(&[0xff, 0xfe, 0x2f], &[(b"id", b"adv-p")]), 0, &[]), false));
    v.push(("header key is not UTF-8".into(), frames(&bincode_header(b"/echo", &[(&[0xc3, 0x28], b"x")]), 0, &[]), false));
    v.push(("trailing bytes after the header".into(), frames(&[bincode_header(b"/echo", &[(b"id", b"adv-p")]), vec![1, 2, 3]].concat(), 0, &[]), true));
    v.push(("response-shaped bytes on a request stream".into(), frames(&[200u16.to_le_bytes().to_vec(), 0u64.to_le_bytes().to_vec()].concat(), 2, b"ok"), false));
    // well-formed requests with unusual but legal contents: all of these must simply be served
    for t in ["0", "1", "999", "18446744073709551615", "18446744073709551616", "abc", "", "-5", " 7"] {
        v.push((format!("well-formed, timeout header {t:?}"), encode_request("/echo", &[("id", "adv-p"), ("timeout", t)], b"x"), true));
    }
    v.push(("well-formed, empty route".into(), encode_request("", &[("id", "adv-p")], b""), true));
    v.push(("well-formed, route of 64 KiB".into(), encode_request(&"/r".repeat(32 * 1024), &[("id", "adv-p")], b""), true));
    for pos in [63usize, 255] {
        // a two-byte character straddling byte `pos + 1` of the route and of a header value
        let text = format!("/{}é{}", "x".repeat(pos - 1), "y".repeat(40));
        v.push((format!("well-formed, two-byte character straddling byte {} of route and header value", pos + 1), encode_request(&text, &[("id", "adv-p"), ("h-long", &text)], b"x"), true));
    }
    let many: Vec<(String, String)> = (0..300).map(|i| (format!("k{i}"), "v".repeat(i % 7))).collect();
    let many_ref: Vec<(&str, &str)> = many.iter().map(|(k, v)| (k.as_str(), v.as_str())).chain([("id", "adv-p")]).collect();
    v.push(("well-formed, 300 headers".into(), encode_request("/echo", &many_ref, b"x"), true));
    v.push(("well-formed, duplicate header keys".into(), frames(&bincode_header(b"/echo", &[(b"id", b"adv-p"), (b"a", b"1"), (b"a", b"2")]), 1, b"x"), true));
    v.push(("well-formed, 1 MiB body".into(), encode_request("/echo", &[("id", "adv-p")], &vec![7u8; 1 << 20]), true));
    // near misses of the routes of a victim that serves through a route table (ROUTED): a
    // directory of registered routes plus a slash, a registered route plus / minus a slash
    for r in ROUTED_NEAR_MISSES {
        v.push((format!("routed: well-framed request for the unregistered route {r:?}"), encode_request(r, &[("id", "adv-p")], b"x"), true));
    }
    v.push(("well-formed, content-type and status-message headers".into(), encode_request("/echo", &[("id", "adv-p"), ("content-type", "\0"), ("status-message", "x")], b"x"), true));
    v
}

/// route table of the victim in the `routed` units (static prefixes that split right in front
/// of a '/')
const ROUTED: [&str; 7] = ["/echo", "/good", "/honest", "/a/b", "/ab", "/ledger/get", "/ledgers"];
const ROUTED_NEAR_MISSES: [&str; 10] = ["/a/", "/ab/", "/a", "/ledger/", "/ledger", "/ledgers/", "/ledger/get/", "/echo/", "//", "/a//"];

const ENDINGS: [&str; 5] = ["finish", "reset", "stop_recv", "abandon", "close_conn"];

const STREAM_ATTACKS: [&str; 17] = ["close_while_served", "drop_endpoint_while_served", "hold_many_bidi", "uni_with_data", "uni_reset", "uni_many", "uni_held_0", "uni_held_1", "uni_held_1024", "uni_held_20000", "datagram_0", "datagram_1", "datagram_1200", "close_abrupt", "close_with_error", "drop_endpoint", "stop_and_reset_everything"];

fn cfg() -> anemo::Config {
    let mut c = anemo::Config::default();
    let mut q = anemo::QuicConfig::default();
    q.max_concurrent_bidi_streams = Some(BIDI_LIMIT);
    q.max_idle_timeout_ms = Some(10_000);
    q.keep_alive_interval_ms = Some(2_000);
    c.quic = Some(q);
    c
}

/// A well-formed RPC by the adversary on a fresh stream: returns Ok(body) on success.
async fn good_rpc(conn: &quinn::Connection, id: &str) -> Result<Vec<u8>, String> {
    let (mut tx, mut rx) = conn.open_bi().await.map_err(|e| format!("open_bi: {e}"))?;
    let body = format!("good {id}");
    tx.write_all(&encode_request("/good", &[("id", id), ("h-x", "y")], body.as_bytes())).await.map_err(|e| format!("write: {e}"))?;
    tx.finish().map_err(|e| format!("finish: {e}"))?;
    let bytes = rx.read_to_end(1 << 22).await.map_err(|e| format!("read: {e}"))?;
    let (status, headers, rbody) = decode_response(&bytes)?;
    if status != 200 || rbody != body.as_bytes() || !headers.iter().any(|(k, v)| k == "id" && v == id) || !headers.iter().any(|(k, v)| k == "h-x" && v == "y") {
        return Err(format!("wrong response: status {status}, {} body bytes", rbody.len()));
    }
    Ok(rbody)
}

async fn scenario(sim: Arc<Sim>, unit: Value) -> Obs {
    let mut o = Obs::default();
    macro_rules! viol {
        ($k:expr, $($arg:tt)*) => { o.violations.push(($k.to_string(), format!($($arg)*))) };
    }
    let v = if unit["routed"].as_bool().unwrap_or(false) { sim.start_routed(&NodeSpec::new(V).config(cfg()), &ROUTED).unwrap() } else { sim.start(&NodeSpec::new(V).config(cfg())).unwrap() };
    let h = sim.start(&NodeSpec::new(H).config(cfg())).unwrap();
    let nv = sim.node_of(&v);
    if let Err(e) = h.connect(v.local_addr()).await {
        viol!("setup", "honest peer cannot connect: {e}");
        return o;
    }
    let adv = Adversary::new(&sim, None);
    let conn = match adv.dial(v.local_addr(), NET_NAME, &Identity::honest(Y, NET_NAME)).await {
        Ok(c) => c,
        Err(e) => {
            viol!("setup", "adversary with a valid identity was not admitted: {e}");
            return o;
        }
    };
    let _ = tokio::time::timeout(ms(2_000), Adversary::read_ack(&conn)).await;
    tokio::time::sleep(ms(50)).await;
    let timing = unit["timing"].as_str().unwrap_or("during");
    let desc = unit["desc"].as_str().unwrap_or("").to_string();
    let ctx = format!("[attack: {desc}; placed {timing} an honest RPC]");
    // honest traffic: one gated RPC in flight, plain ones before and after
    let honest = |id: &'static str, gate: bool| {
        let (sim2, h2, to) = (sim.clone(), h.clone(), v.peer_id());
        async move {
            let mut spec = RpcSpec::new(id).route("/honest").header("h-a", "b").body(pattern_body(3, 500));
            if gate {
                spec = spec.header("gate", "hg");
            }
            let r = tokio::time::timeout(ms(8_000), do_rpc(&sim2, &h2, to, &spec)).await;
            match r {
                Err(_) => Err(format!("honest rpc {id} did not complete within 8 s")),
                Ok(o) => match o.result {
                    Ok(ok) => check_response(&spec, &ok, to),
                    Err(e) => Err(format!("honest rpc {id} failed: {e}")),
                },
            }
        }
    };
    let mut h1 = None;
    if timing == "after" || timing == "during" {
        h1 = Some(tokio::spawn(honest("h1", true)));
        tokio::time::sleep(ms(20)).await;
    }
    if timing == "after" {
        sim.svc.release("hg");
        if let Some(t) = h1.take() {
            if let Err(e) = t.await.unwrap() {
                viol!("honest-rpc-affected", "{ctx} {e}");
            }
        }
    }

    // ---- the attack ----
    if unit["bound"].as_u64().unwrap_or(0) > 0 {
        sim.fabric.set_fate_window(0, 14);
    }
    let mut conn_open = true;
    let mut held: Vec<(quinn::SendStream, quinn::RecvStream)> = vec![];
    let mut held_uni: Vec<quinn::SendStream> = vec![];
    match unit["kind"].as_str().unwrap() {
        "payload" => {
            let pi = unit["payload"].as_u64().unwrap() as usize;
            let ending = unit["ending"].as_str().unwrap();
            let (pname, bytes, well_formed) = payloads().swap_remove(pi);
            // (a request for a route the table does not hold is answered NotFound, not served)
            let must_be_served = well_formed && !pname.starts_with("routed:");
            match conn.open_bi().await {
                Err(e) => viol!("setup", "{ctx} open_bi: {e}"),
                Ok((mut tx, mut rx)) => {
                    // write in two chunks when requested, so that the handler sees partial frames
                    let split = unit["split"].as_u64().map(|s| (s as usize).min(bytes.len()));
                    let w = async {
                        if let Some(s) = split {
                            tx.write_all(&bytes[..s]).await?;
                            tokio::time::sleep(ms(15)).await;
                            tx.write_all(&bytes[s..]).await
                        } else {
                            tx.write_all(&bytes).await
                        }
                    };
                    let wr = tokio::time::timeout(ms(3_000), w).await;
                    o.log.push(format!("wrote {} bytes: {:?}", bytes.len(), wr.map(|r| r.map_err(|e| e.to_string()))));
                    match ending {
                        "finish" => {
                            let _ = tx.finish();
                            let resp = tokio::time::timeout(ms(3_000), rx.read_to_end(1 << 22)).await;
                            let served = matches!(&resp, Ok(Ok(b)) if decode_response(b).map(|r| r.0 == 200).unwrap_or(false));
                            o.log.push(format!("response: served={served} {:?}", resp.as_ref().map(|r| r.as_ref().map(|b| b.len()).map_err(|e| e.to_string()))));
                            if must_be_served && !served {
                                viol!("well-formed-request-not-served", "{ctx} a well-formed request was not answered with Success: {:?}", resp.map(|r| r.map(|b| decode_response(&b).map(|x| x.0)).map_err(|e| e.to_string())));
                            }
                            if pname.starts_with("routed:") && (served || sim.svc.started("adv-p") > 0) {
                                viol!("malformed-request-served", "{ctx} a request for a route the victim's table does not hold reached a handler (served={served})");
                            }
                            if !well_formed && served && sim.svc.started("adv-p") > 0 {
                                viol!("malformed-request-served", "{ctx} the malformed request reached the handler and was answered with Success");
                            }
                        }
                        "reset" => {
                            let _ = tx.reset(7u32.into());
                            held.push((tx, rx));
                        }
                        "stop_recv" => {
                            let _ = rx.stop(9u32.into());
                            let _ = tx.finish();
                            held.push((tx, rx));
                        }
                        "abandon" => held.push((tx, rx)),
                        _ => {
                            conn.close(3u32.into(), b"bye");
                            conn_open = false;
                        }
                    }
                }
            }
        }
        _ => match unit["attack"].as_str().unwrap() {
            "hold_many_bidi" => {
                for i in 0..(BIDI_LIMIT + 3) {
                    match tokio::time::timeout(ms(200), conn.open_bi()).await {
                        Ok(Ok((mut tx, rx))) => {
                            let _ = tx.write_all(&encode_request("/echo", &[("id", "adv-p")], b"x")[..10]).await;
                            held.push((tx, rx));
                        }
                        _ => {
                            o.log.push(format!("stream #{i} blocked by the limit"));
                            break;
                        }
                    }
                }
            }
            "uni_with_data" | "uni_reset" | "uni_many" => {
                let n = if unit["attack"] == "uni_many" { 150 } else { 1 };
                for _ in 0..n {
                    if let Ok(Ok(mut s)) = tokio::time::timeout(ms(100), conn.open_uni()).await {
                        let _ = s.write_all(&[0x55; 1024]).await;
                        if unit["attack"] == "uni_reset" {
                            let _ = s.reset(1u32.into());
                        } else {
                            let _ = s.finish();
                        }
                        held_uni.push(s);
                    }
                }
            }
            a if a.starts_with("uni_held_") => {
                // a unidirectional stream that carries some bytes and is then neither finished
                // nor reset for the rest of the scenario
                let n: usize = a["uni_held_".len()..].parse().unwrap();
                if let Ok(Ok(mut s)) = tokio::time::timeout(ms(100), conn.open_uni()).await {
                    if n > 0 {
                        let _ = tokio::time::timeout(ms(200), s.write_all(&vec![0x55; n])).await;
                    }
                    held_uni.push(s);
                }
            }
            "close_while_served" | "drop_endpoint_while_served" => {
                // several well-formed requests whose handlers are still running when the peer goes
                for i in 0..3 {
                    if let Ok((mut tx, rx)) = conn.open_bi().await {
                        let _ = tx.write_all(&encode_request("/echo", &[("id", &format!("adv-s{i}")), ("sleep-ms", "400")], b"x")).await;
                        let _ = tx.finish();
                        held.push((tx, rx));
                    }
                }
                for _ in 0..100 {
                    if sim.svc.started("adv-s0") > 0 {
                        break;
                    }
                    tokio::time::sleep(ms(5)).await;
                }
                if sim.svc.started("adv-s0") == 0 {
                    viol!("setup", "{ctx} the slow requests never reached a handler");
                }
                if unit["attack"] == "close_while_served" {
                    conn.close(0u32.into(), b"");
                } else {
                    adv.endpoint.close(1u32.into(), b"gone");
                }
                conn_open = false;
            }
            "datagram_0" => drop(conn.send_datagram(bytes::Bytes::new())),
            "datagram_1" => drop(conn.send_datagram(bytes::Bytes::from_static(b"x"))),
            "datagram_1200" => {
                for _ in 0..20 {
                    let _ = conn.send_datagram(bytes::Bytes::from(vec![1u8; conn.max_datagram_size().unwrap_or(1200).min(1200)]));
                }
            }
            "close_abrupt" => {
                conn.close(0u32.into(), b"");
                conn_open = false;
            }
            "close_with_error" => {
                conn.close(quinn::VarInt::MAX, &[0xff; 200]);
                conn_open = false;
            }
            "drop_endpoint" => {
                adv.endpoint.close(1u32.into(), b"gone");
                conn_open = false;
            }
            "stop_and_reset_everything" => {
                for i in 0..4 {
                    if let Ok((mut tx, mut rx)) = conn.open_bi().await {
                        let _ = tx.write_all(&encode_request("/echo", &[("id", "adv-p"), ("sleep-ms", "50")], b"x")).await;
                        if i % 2 == 0 {
                            let _ = rx.stop(0u32.into());
                            let _ = tx.reset(0u32.into());
                        } else {
                            let _ = tx.finish();
                            let _ = rx.stop(0u32.into());
                        }
                        held.push((tx, rx));
                    }
                }
            }
            a => panic!("attack {a}"),
        },
    }
    tokio::time::sleep(ms(30)).await;
    sim.fabric.set_fate_budget(0);
    let devs = sim.chooser.lock().unwrap().choices().iter().filter(|c| **c != 0).count();
    if devs > 0 {
        // a lost datagram is repaired by a retransmission after a probe timeout
        tokio::time::sleep(ms(1_500)).await;
    }

    // ---- the network must still work ----
    if conn_open && unit["attack"] != "hold_many_bidi" {
        match tokio::time::timeout(ms(3_000), good_rpc(&conn, "a-good")).await {
            Ok(Ok(_)) => {}
            Ok(Err(e)) => viol!("sibling-stream-affected", "{ctx} a well-formed RPC on another stream of the same connection failed: {e}"),
            Err(_) => viol!("sibling-stream-affected", "{ctx} a well-formed RPC on another stream of the same connection did not complete within 3 s"),
        }
    }
    if timing == "before" {
        h1 = Some(tokio::spawn(honest("h1", true)));
        tokio::time::sleep(ms(20)).await;
    }
    sim.svc.release("hg");
    if let Some(t) = h1.take() {
        match t.await {
            Ok(Ok(())) => {}
            Ok(Err(e)) => viol!("honest-rpc-affected", "{ctx} {e}"),
            Err(_) => viol!("honest-rpc-affected", "{ctx} the honest RPC task died"),
        }
    }
    if let Err(e) = honest("h2", false).await {
        viol!("honest-rpc-affected", "{ctx} {e}");
    }
    if v.is_closed() {
        viol!("network-shut-down", "{ctx} the victim network reports closed");
    }
    if !v.peers().contains(&h.peer_id()) {
        viol!("honest-peer-dropped", "{ctx} the victim no longer lists the honest peer");
    }
    if conn_open && conn.close_reason().is_some() {
        viol!("connection-torn-down", "{ctx} the victim tore down the adversary's whole connection: {:?}", conn.close_reason());
    }
    // a new honest connection can still be established
    let h3 = sim.start(&NodeSpec::new(H + 10)).unwrap();
    match tokio::time::timeout(ms(3_000), h3.connect(v.local_addr())).await {
        Ok(Ok(_)) => {}
        other => viol!("network-stalled", "{ctx} a new honest peer cannot connect afterwards: {:?}", other.map(|r| r.map_err(|e| e.to_string()))),
    }
    // nothing of the adversary's keeps running inside the victim once it is gone
    drop(held);
    drop(held_uni);
    conn.close(0u32.into(), b"done");
    tokio::time::sleep(ms(300)).await;
    let running = *sim.svc.inflight.lock().unwrap().get(&nv).unwrap_or(&0);
    if running != 0 {
        viol!("handler-leaked", "{ctx} {running} handler(s) still running on the victim after the adversary left");
    }
    o.class = format!("{} {}", unit["kind"].as_str().unwrap(), if conn_open { "conn-open" } else { "conn-closed" });
    o
}

fn judge(o: &Obs) -> Judged {
    Judged { class: o.class.clone(), violations: o.violations.clone(), sample: Some(json!(o.log)) }
}

/// E2: the decoders on the same hostile byte strings, with an address-space cap on this worker so
/// that an unbounded allocation aborts the process (reported by the pool as a violation).
fn decoder_layer(out: &mut UnitResult) {
    unsafe {
        let lim = libc::rlimit { rlim_cur: 6 << 30, rlim_max: 6 << 30 };
        libc::setrlimit(libc::RLIMIT_AS, &lim);
    }
    let rt = tokio::runtime::Builder::new_current_thread().build().unwrap();
    let cfg = anemo::Config::default();
    for (name, bytes, well_formed) in payloads() {
        for as_response in [false, true] {
            crate::pool::crumb(|| format!("decoding `{name}` as a {}", if as_response { "response" } else { "request" }));
            out.evaluations += 1;
            let b = bytes.clone();
            let r = std::panic::catch_unwind(std::panic::AssertUnwindSafe(|| {
                rt.block_on(async {
                    let mut rd: &[u8] = &b;
                    if as_response {
                        anemo::verif::wire::read_response(&mut rd, &cfg).await.map(|_| ()).map_err(|e| e.to_string())
                    } else {
                        anemo::verif::wire::read_request(&mut rd, &cfg).await.map(|_| ()).map_err(|e| e.to_string())
                    }
                })
            }));
            match r {
                Err(p) => out.violation("decoder-panics", format!("decoding `{name}` as a {} panicked: {}", if as_response { "response" } else { "request" }, crate::exec::panic_message(&p)), json!({"unit": {"kind": "decoder"}, "payload": name})),
                Ok(res) => {
                    if !as_response && res.is_ok() != well_formed {
                        out.violation("decoder-verdict", format!("decoding `{name}`: accepted={}, expected {well_formed}", res.is_ok()), json!({"unit": {"kind": "decoder"}, "payload": name}));
                    }
                    out.class(format!("decoder accepted={}", res.is_ok()));
                }
            }
        }
    }
}

impl Check for C06 {
    fn meta(&self, _tier: Tier) -> CheckMeta {
        CheckMeta {
            property: "C06",
            level: "fault_enumeration",
            rule: "an admitted adversary (raw QUIC endpoint, valid identity) x byte string on a request stream (valid, cut at 15 offsets, garbage, wrong tag/version/reserved, 10 hostile length prefixes, bincode with absurd string/map sizes, invalid UTF-8, trailing bytes, response-shaped, well-framed requests for 10 near misses of the routes of a victim that serves through a route table, 20 well-formed-but-unusual requests: timeout header values, empty/64 KiB route, multi-byte characters straddling bytes 64 / 256, 300 headers, duplicate keys, 1 MiB body) x ending {finish, reset, stop, abandon, connection close} x optional mid-frame split x placement {before, during, after} an honest peer's in-flight RPC; stream-level attacks (hold limit+3 streams, uni streams finished / reset / 150 at once / held open after 0, 1, 1024, 20000 bytes, datagrams 0/1/1200 B, abrupt closes, endpoint drop, the same while three of its well-formed requests are being served, stop+reset storms); each followed by a well-formed RPC on a sibling stream, honest RPCs, a new honest connection; plus the decoders on the same byte strings under an address-space cap; distinct = distinct (attack kind, connection state)".into(),
            assumptions: vec!["one adversary connection at a time; bidi stream limit 6".into()],
            exhaustive: true,
        }
    }

    fn units(&self, tier: Tier) -> Vec<Value> {
        let mut u = vec![json!({"kind":"decoder","on_death":"decoder-aborts-process"})];
        let ps = payloads();
        for (pi, (name, bytes, _)) in ps.iter().enumerate() {
            if name.starts_with("routed:") {
                // only against the victim that serves through a route table
                for timing in ["before", "during", "after"] {
                    u.push(json!({"kind":"payload","payload":pi,"ending":"finish","timing":timing,"routed":true,"desc":format!("{name} (victim serves through a Router with {ROUTED:?})"),"bound":0}));
                }
                continue;
            }
            for ending in ENDINGS {
                for timing in ["before", "during", "after"] {
                    let _ = tier;
                    u.push(json!({"kind":"payload","payload":pi,"ending":ending,"timing":timing,"desc":format!("{name}, then {ending}"),"bound": if timing == "during" { tier.pick(1, 2) } else { tier.pick(0, 1) }}));
                }
                // split the write inside the preamble / inside a length prefix / inside the header
                for split in [3u64, 10, 14] {
                    if (split as usize) < bytes.len() {
                        u.push(json!({"kind":"payload","payload":pi,"ending":ending,"timing":"during","split":split,"desc":format!("{name} written in two parts (split at {split}), then {ending}"),"bound":0}));
                    }
                }
            }
        }
        for a in STREAM_ATTACKS {
            for timing in ["before", "during", "after"] {
                u.push(json!({"kind":"stream","attack":a,"timing":timing,"desc":a,"bound":tier.pick(0, 1)}));
            }
        }
        u
    }

    fn run_unit(&self, _tier: Tier, unit: &Value, out: &mut UnitResult) {
        if unit["kind"] == "decoder" {
            decoder_layer(out);
            return;
        }
        let u = unit.clone();
        let bound = unit["bound"].as_u64().unwrap_or(0) as usize;
        explore_sim(
            out,
            crate::seed(),
            unit,
            2_000,
            bound,
            5_000,
            true,
            move |sim| {
                let u = u.clone();
                async move {
                    scenario(sim, u).await
                }
                .boxed()
            },
            |o: &Obs, _p, _c| judge(o),
        );
    }

    fn replay(&self, replay: &Value) -> String {
        let unit = replay["unit"].clone();
        if unit["kind"] == "decoder" {
            let mut out = UnitResult::default();
            decoder_layer(&mut out);
            return format!("{:#?}", out.violations.iter().map(|v| (&v.key, &v.message)).collect::<Vec<_>>());
        }
        let choices: Vec<u32> = replay["choices"].as_array().map(|a| a.iter().map(|x| x.as_u64().unwrap() as u32).collect()).unwrap_or_default();
        let seed = replay["seed"].as_u64().unwrap_or(1);
        let u = unit.clone();
        let bound = unit["bound"].as_u64().unwrap_or(0);
        let o = sim_exec(seed, &choices, 2_000, move |sim| {
            async move {
                let _ = bound;
                scenario(sim, u).await
            }
            .boxed()
        });
        match o.run {
            Some(r) => format!("unit {unit}\nchoices {choices:?}\n{}\nviolations {:#?}\npanics {:?}", r.obs.log.join("\n"), r.obs.violations, o.panics),
            None => format!("execution hung={} panics={:?}", o.hung, o.panics),
        }
    }

    fn finish(&self, _tier: Tier, total: &mut UnitResult) -> Map<String, Value> {
        for need in ["payload conn-open", "payload conn-closed", "stream conn-open", "stream conn-closed", "decoder accepted=true", "decoder accepted=false"] {
            if !total.classes.contains_key(need) {
                total.machinery_errors.push(format!("vacuous: class `{need}` missing"));
            }
        }
        Map::new()
    }
}
