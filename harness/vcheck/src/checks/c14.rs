//! C14 — networks with different names never connect.

use crate::adversary::{Adversary, Identity};
use crate::report::{CheckMeta, UnitResult};
use crate::simrun::{explore_sim, sim_exec, Judged};
use crate::world::*;
use crate::{Check, Tier};
use futures::FutureExt;
use serde_json::{json, Map, Value};
use std::sync::Arc;

pub struct C14;

const NAMES: [&str; 3] = ["n1", "n1x", "n3.example"];
/// certificate kinds an adversary can present: one per network name, then a certificate without
/// any subject alternative name and one with an IP-address entry only
const CERT_KINDS: usize = 8;

fn cert_label(c: usize) -> &'static str {
    match c {
        0..=2 => NAMES[c],
        3 => "<no name at all>",
        4 => "<an IP address only>",
        5 => "<the unknown network zz, with subject common name n1>",
        6 => "<no alternative name, subject common name n1x>",
        _ => "<n3.example, with subject common name N1>",
    }
}

fn adversary_identity(c: usize) -> Identity {
    if c < 3 {
        Identity::honest(7, NAMES[c])
    } else if c >= 5 {
        let cert = match c {
            5 => crate::certs::ed25519_cert_with_cn(7, Some("zz"), "n1"),
            6 => crate::certs::ed25519_cert_with_cn(7, None, "n1x"),
            _ => crate::certs::ed25519_cert_with_cn(7, Some("n3.example"), "N1"),
        };
        Identity { chain: vec![cert], signer: Some(crate::adversary::signing_key(&crate::adversary::ed25519_pkcs8(7))) }
    } else {
        Identity { chain: vec![crate::certs::ed25519_cert_nameless(7, c == 4)], signer: Some(crate::adversary::signing_key(&crate::adversary::ed25519_pkcs8(7))) }
    }
}

/// (primary, alternate) configurations over the three names
fn configs() -> Vec<(usize, Option<usize>)> {
    let mut v = vec![];
    for p in 0..3 {
        v.push((p, None));
        for a in 0..3 {
            if a != p {
                v.push((p, Some(a)));
            }
        }
    }
    v
}

fn spec(key: u8, cfg: (usize, Option<usize>)) -> NodeSpec {
    let mut s = NodeSpec::new(key);
    s.name = NAMES[cfg.0].to_string();
    s.alt = cfg.1.map(|a| NAMES[a].to_string());
    s
}

fn accepts(cfg: (usize, Option<usize>), name: usize) -> bool {
    cfg.0 == name || cfg.1 == Some(name)
}

#[derive(Clone, Debug)]
pub struct Obs {
    pub connected: Result<(), String>,
    pub events_dialer: Vec<String>,
    pub events_listener: Vec<String>,
    pub peers_dialer: usize,
    pub peers_listener: usize,
    pub rpc_ok: Option<bool>,
    pub sni_seen: Vec<Option<String>>,
    pub adversary_got_ack: Option<bool>,
}

fn cfg_of(v: &Value) -> (usize, Option<usize>) {
    (v[0].as_u64().unwrap() as usize, v[1].as_u64().map(|x| x as usize))
}

async fn scenario(sim: Arc<Sim>, unit: Value) -> Obs {
    let mut obs = Obs {
        connected: Err(String::new()),
        events_dialer: vec![],
        events_listener: vec![],
        peers_dialer: 0,
        peers_listener: 0,
        rpc_ok: None,
        sni_seen: vec![],
        adversary_got_ack: None,
    };
    match unit["kind"].as_str().unwrap() {
        "honest" => {
            let (dk, lk) = if unit["dialer_greater"].as_bool().unwrap() { (2, 1) } else { (1, 2) };
            let d = sim.start(&spec(dk, cfg_of(&unit["dialer"]))).unwrap();
            let l = sim.start(&spec(lk, cfg_of(&unit["listener"]))).unwrap();
            let (mut ed, _) = d.subscribe().unwrap();
            let (mut el, _) = l.subscribe().unwrap();
            let r = if unit["pinned"].as_bool().unwrap() {
                d.connect_with_peer_id(l.local_addr(), l.peer_id()).await
            } else {
                d.connect(l.local_addr()).await
            };
            obs.connected = r.map(|_| ()).map_err(|e| format!("{e:#}"));
            tokio::time::sleep(ms(300)).await;
            if obs.connected.is_ok() {
                let ok1 = tokio::time::timeout(ms(2000), d.rpc(l.peer_id(), Sim::request("x"))).await.map(|r| r.is_ok()).unwrap_or(false);
                let ok2 = tokio::time::timeout(ms(2000), l.rpc(d.peer_id(), Sim::request("y"))).await.map(|r| r.is_ok()).unwrap_or(false);
                obs.rpc_ok = Some(ok1 && ok2);
            }
            tokio::time::sleep(ms(1000)).await;
            obs.events_dialer = drain_events(&mut ed).iter().map(|e| event_str(&sim, e)).collect();
            obs.events_listener = drain_events(&mut el).iter().map(|e| event_str(&sim, e)).collect();
            obs.peers_dialer = d.peers().len();
            obs.peers_listener = l.peers().len();
        }
        "adv_dialer" => {
            let l = sim.start(&spec(1, cfg_of(&unit["listener"]))).unwrap();
            let (mut el, _) = l.subscribe().unwrap();
            let adv = Adversary::new(&sim, None);
            let sni = unit["sni"].as_str().unwrap();
            let id = adversary_identity(unit["cert_name"].as_u64().unwrap() as usize);
            match adv.dial(l.local_addr(), sni, &id).await {
                Ok(conn) => {
                    let ack = tokio::time::timeout(ms(3000), Adversary::read_ack(&conn)).await;
                    obs.adversary_got_ack = Some(matches!(ack, Ok(Ok(_))));
                    obs.connected = Ok(());
                    tokio::time::sleep(ms(500)).await;
                    drop(conn);
                }
                Err(e) => obs.connected = Err(e),
            }
            tokio::time::sleep(ms(500)).await;
            obs.events_listener = drain_events(&mut el).iter().map(|e| event_str(&sim, e)).collect();
            obs.peers_listener = l.peers().len();
        }
        "adv_listener" => {
            let d = sim.start(&spec(1, cfg_of(&unit["dialer"]))).unwrap();
            let (mut ed, _) = d.subscribe().unwrap();
            let adv = Adversary::new(&sim, Some(&adversary_identity(unit["cert_name"].as_u64().unwrap() as usize)));
            let ep = adv.endpoint.clone();
            let acceptor = tokio::spawn(async move {
                if let Some(inc) = ep.accept().await {
                    if let Ok(conn) = inc.await {
                        let _ = Adversary::send_ack(&conn).await;
                        tokio::time::sleep(ms(2000)).await;
                    }
                }
            });
            let r = d.connect(adv.addr).await;
            obs.connected = r.map(|_| ()).map_err(|e| format!("{e:#}"));
            tokio::time::sleep(ms(300)).await;
            obs.events_dialer = drain_events(&mut ed).iter().map(|e| event_str(&sim, e)).collect();
            obs.peers_dialer = d.peers().len();
            obs.sni_seen = adv.sni_seen.as_ref().unwrap().seen_sni.lock().unwrap().clone();
            acceptor.abort();
        }
        k => panic!("unknown kind {k}"),
    }
    obs
}

fn judge(unit: &Value, o: &Obs) -> Judged {
    let mut v: Vec<(String, String)> = vec![];
    let class;
    match unit["kind"].as_str().unwrap() {
        "honest" => {
            let (d, l) = (cfg_of(&unit["dialer"]), cfg_of(&unit["listener"]));
            let expect = accepts(l, d.0);
            let ctx = format!("[dialer primary {} alt {:?}; listener primary {} alt {:?}; pinned={}]", NAMES[d.0], d.1.map(|a| NAMES[a]), NAMES[l.0], l.1.map(|a| NAMES[a]), unit["pinned"]);
            class = format!("honest expect={expect} got={}", o.connected.is_ok());
            if expect {
                if let Err(e) = &o.connected {
                    v.push(("compatible-names-rejected".into(), format!("{ctx} the dialer's primary name is accepted by the listener but connect failed: {e}")));
                } else if o.rpc_ok != Some(true) || o.peers_dialer != 1 || o.peers_listener != 1 {
                    v.push(("compatible-names-rejected".into(), format!("{ctx} connected but not usable: rpc_ok={:?} peers {} / {}", o.rpc_ok, o.peers_dialer, o.peers_listener)));
                }
            } else {
                if o.connected.is_ok() {
                    v.push(("cross-network-connect".into(), format!("{ctx} connect succeeded across different network names")));
                }
                if !o.events_dialer.is_empty() || !o.events_listener.is_empty() || o.peers_dialer + o.peers_listener != 0 {
                    v.push(("cross-network-events".into(), format!("{ctx} peer events / listings across different network names: dialer {:?} listener {:?}", o.events_dialer, o.events_listener)));
                }
            }
        }
        "adv_dialer" => {
            let l = cfg_of(&unit["listener"]);
            let sni = unit["sni"].as_str().unwrap();
            let c = unit["cert_name"].as_u64().unwrap() as usize;
            let sni_ok = NAMES.iter().position(|n| *n == sni).map(|i| accepts(l, i)).unwrap_or(false);
            // what counts is the subject alternative name: kind 7 is a certificate for n3.example
            let san = match c { 0..=2 => Some(c), 7 => Some(2), _ => None };
            let expect = sni_ok && san.map(|n| accepts(l, n)).unwrap_or(false);
            let admitted = o.events_listener.iter().any(|e| e.starts_with("New")) || o.adversary_got_ack == Some(true);
            let ctx = format!("[listener primary {} alt {:?}; adversary claims SNI {sni:?} with a certificate for {}]", NAMES[l.0], l.1.map(|a| NAMES[a]), cert_label(c));
            class = format!("adv_dialer expect={expect} admitted={admitted}");
            if admitted && !expect {
                v.push(("name-mismatch-admitted".into(), format!("{ctx} was admitted: events {:?}, ack {:?}", o.events_listener, o.adversary_got_ack)));
            }
            if !admitted && expect {
                v.push(("compatible-names-rejected".into(), format!("{ctx} should be admitted but was not: {:?}", o.connected)));
            }
        }
        "adv_listener" => {
            let d = cfg_of(&unit["dialer"]);
            let c = unit["cert_name"].as_u64().unwrap() as usize;
            let expect = match c { 0..=2 => c == d.0, 7 => d.0 == 2, _ => false };
            let ctx = format!("[dialer primary {} alt {:?}; answering party presents a certificate for {}]", NAMES[d.0], d.1.map(|a| NAMES[a]), cert_label(c));
            class = format!("adv_listener expect={expect} got={} sni={:?}", o.connected.is_ok(), o.sni_seen.first());
            for s in &o.sni_seen {
                if s.as_deref() != Some(NAMES[d.0]) {
                    v.push(("dials-with-non-primary-name".into(), format!("{ctx} the dialer announced {s:?} instead of its primary name")));
                }
            }
            if o.sni_seen.is_empty() {
                v.push(("setup".into(), format!("{ctx} the adversary saw no client hello")));
            }
            if o.connected.is_ok() != expect {
                v.push((if expect { "compatible-names-rejected" } else { "cross-network-connect" }.into(), format!("{ctx} connect result {:?}", o.connected)));
            }
            if !expect && (!o.events_dialer.is_empty() || o.peers_dialer != 0) {
                v.push(("cross-network-events".into(), format!("{ctx} events {:?}", o.events_dialer)));
            }
        }
        _ => unreachable!(),
    }
    Judged { class, violations: v, sample: Some(json!({"unit": unit, "connected": o.connected.as_ref().err(), "events": [o.events_dialer.clone(), o.events_listener.clone()], "sni": o.sni_seen})) }
}

/// Verifier layer: every (accepted set, presented certificate name, dialed name) triple.
fn verifier_layer(out: &mut UnitResult) {
    use rustls::pki_types::{CertificateDer, ServerName, UnixTime};
    let all = ["n1", "n1x", "n3.example", "zz"];
    let now = UnixTime::now();
    let certs: Vec<CertificateDer<'static>> = all.iter().map(|n| crate::adversary::anemo_cert(5, n)).collect();
    let pid = peer_id_of_key(5);
    for mask in 1u32..16 {
        let accepted: Vec<String> = (0..4).filter(|i| mask & (1 << i) != 0).map(|i| all[i].to_string()).collect();
        // certificates that name a network in the subject common name only: the common name does
        // not count
        for (san, cn) in [(Some("zz"), "n1"), (None, "n1x"), (None, "N1")] {
            let cert = crate::certs::ed25519_cert_with_cn(5, san, cn);
            out.evaluations += 1;
            let exp = san.map(|s| accepted.iter().any(|n| n == s)).unwrap_or(false);
            if anemo::verif::crypto::verify_client_cert(&accepted, &cert, &[], now).is_ok() != exp {
                out.violation("verifier-name-check", format!("verify_client_cert with accepted {accepted:?} and a certificate with alternative name {san:?} and common name {cn:?}: expected accepted={exp}"), json!({"layer":"verifier","accepted":accepted,"cert":"cn"}));
            }
            out.class(format!("verifier client exp={exp}"));
        }
        // certificates that name no network: never acceptable, whatever the accepted names
        for ip_only in [false, true] {
            let cert = crate::certs::ed25519_cert_nameless(5, ip_only);
            out.evaluations += 1;
            if anemo::verif::crypto::verify_client_cert(&accepted, &cert, &[], now).is_ok() {
                out.violation("verifier-name-check", format!("verify_client_cert with accepted {accepted:?} admitted a certificate that names no network (ip-only SAN: {ip_only})"), json!({"layer":"verifier","accepted":accepted,"cert":"nameless"}));
            }
            out.class("verifier client exp=false");
            for dialed in all {
                out.evaluations += 1;
                let sn = ServerName::try_from(dialed).unwrap();
                if anemo::verif::crypto::verify_server_cert(&accepted, None, &cert, &[], &sn, now).is_ok() {
                    out.violation("verifier-name-check", format!("verify_server_cert with accepted {accepted:?}, dialed {dialed:?} admitted a certificate that names no network (ip-only SAN: {ip_only})"), json!({"layer":"verifier","accepted":accepted,"cert":"nameless","dialed":dialed}));
                }
                out.class("verifier server exp=false");
            }
        }
        // the rest of the presented chain never counts: only the end-entity certificate (the one
        // the identity comes from) names the network. chains: none, one more certificate of
        // another key for each name, and two of them
        let mut chains: Vec<(String, Vec<CertificateDer<'static>>)> = vec![("no further certificates".into(), vec![])];
        for n in all {
            chains.push((format!("followed by another member's certificate for {n:?}"), vec![crate::adversary::anemo_cert(6, n)]));
        }
        chains.push(("followed by certificates for \"n1\" and \"zz\"".into(), vec![crate::adversary::anemo_cert(6, "n1"), crate::adversary::anemo_cert(7, "zz")]));
        for (ci, cert) in certs.iter().enumerate() {
            for (chain_label, chain) in &chains {
                out.evaluations += 1;
                let got = anemo::verif::crypto::verify_client_cert(&accepted, cert, chain, now).is_ok();
                let exp = accepted.iter().any(|n| n == all[ci]);
                out.class(format!("verifier client exp={exp}"));
                if got != exp {
                    out.violation("verifier-name-check", format!("verify_client_cert with accepted {accepted:?} and a certificate for {:?} ({chain_label}): accepted={got}, expected {exp}", all[ci]), json!({"layer":"verifier","accepted":accepted,"cert":all[ci],"chain":chain_label}));
                }
                for dialed in all {
                    for expected_id in [None, Some(pid)] {
                        out.evaluations += 1;
                        let sn = ServerName::try_from(dialed).unwrap();
                        let got = anemo::verif::crypto::verify_server_cert(&accepted, expected_id, cert, chain, &sn, now).is_ok();
                        let exp = accepted.iter().any(|n| n == dialed) && all[ci] == dialed;
                        out.class(format!("verifier server exp={exp}"));
                        if got != exp {
                            out.violation("verifier-name-check", format!("verify_server_cert with accepted {accepted:?}, dialed {dialed:?}, certificate for {:?} ({chain_label}): accepted={got}, expected {exp}", all[ci]), json!({"layer":"verifier","accepted":accepted,"cert":all[ci],"dialed":dialed,"chain":chain_label}));
                        }
                    }
                }
            }
        }
    }
}

impl Check for C14 {
    fn meta(&self, _tier: Tier) -> CheckMeta {
        CheckMeta {
            property: "C14",
            level: "exploration",
            rule: "all 9x9 (primary, alternate) configurations of dialer and listener over three names, with and without identity pinning, both key orders; an adversarial dialer for every (claimed SNI in 4 names, or no server-name extension at all) x (certificate for each name, for no name at all, for an IP address only, naming an accepted network only in the subject common name) x (listener configuration); an adversarial listener for every (certificate name) x (dialer configuration) recording the announced SNI; plus the certificate verifiers on every (accepted-name subset, certificate name, dialed name) triple; distinct = distinct (scenario kind, expected, observed)".into(),
            assumptions: vec!["three network names (one a proper prefix of another: n1, n1x, n3.example) plus one unknown name stand for all names".into()],
            exhaustive: true,
        }
    }

    fn units(&self, tier: Tier) -> Vec<Value> {
        let mut u = vec![json!({"kind":"verifier"})];
        let cs = configs();
        let j = |c: &(usize, Option<usize>)| json!([c.0, c.1]);
        for d in &cs {
            for l in &cs {
                for (pinned, dg) in [(false, false), (true, true), (false, true), (true, false)] {
                    if tier == Tier::Quick && pinned != dg {
                        continue;
                    }
                    u.push(json!({"kind":"honest","dialer":j(d),"listener":j(l),"pinned":pinned,"dialer_greater":dg,"bound":tier.pick(0, 1)}));
                }
            }
        }
        for l in &cs {
            for sni in ["n1", "n1x", "n3.example", "zz", "<none>"] {
                for c in 0..CERT_KINDS {
                    u.push(json!({"kind":"adv_dialer","listener":j(l),"sni":sni,"cert_name":c}));
                }
            }
        }
        for d in &cs {
            for c in 0..CERT_KINDS {
                u.push(json!({"kind":"adv_listener","dialer":j(d),"cert_name":c}));
            }
        }
        u
    }

    fn run_unit(&self, _tier: Tier, unit: &Value, out: &mut UnitResult) {
        if unit["kind"] == "verifier" {
            verifier_layer(out);
            return;
        }
        let (u, u2) = (unit.clone(), unit.clone());
        let bound = unit["bound"].as_u64().unwrap_or(0) as usize;
        explore_sim(
            out,
            crate::seed(),
            unit,
            2_000,
            bound,
            2_000,
            true,
            move |sim| {
                let u = u.clone();
                async move {
                    if bound > 0 {
                        sim.fabric.set_fate_window(0, 14);
                    }
                    scenario(sim, u).await
                }
                .boxed()
            },
            |o: &Obs, _p, c| {
                let mut j = judge(&u2, o);
                if c.iter().any(|x| *x != 0) {
                    // with an injected fault a legitimate connect may fail; only wrongful admission counts
                    j.violations.retain(|(k, _)| k != "compatible-names-rejected");
                }
                j
            },
        );
    }

    fn replay(&self, replay: &Value) -> String {
        let unit = replay.get("unit").cloned().unwrap_or(replay.clone());
        if unit.get("layer").is_some() || unit["kind"] == "verifier" {
            let mut out = UnitResult::default();
            verifier_layer(&mut out);
            return format!("verifier layer re-run: {} violations\n{:#?}", out.violations.len(), out.violations);
        }
        let seed = replay["seed"].as_u64().unwrap_or(1);
        let u = unit.clone();
        let o = sim_exec(seed, &[], 2_000, move |sim| scenario(sim, u).boxed());
        match o.run {
            Some(r) => {
                let j = judge(&unit, &r.obs);
                format!("unit {unit}\nobserved {:#?}\nviolations {:?}\npanics {:?}", r.obs, j.violations, o.panics)
            }
            None => format!("execution hung={} panics={:?}", o.hung, o.panics),
        }
    }

    fn finish(&self, _tier: Tier, total: &mut UnitResult) -> Map<String, Value> {
        for need in ["honest expect=true got=true", "honest expect=false got=false", "adv_dialer expect=true admitted=true", "adv_dialer expect=false admitted=false", "adv_listener expect=true got=true", "adv_listener expect=false got=false"] {
            if !total.classes.keys().any(|k| k.starts_with(need)) {
                total.machinery_errors.push(format!("vacuous: no execution of class `{need}`"));
            }
        }
        Map::new()
    }
}
