//! C08 — shutdown always completes, releases everything and never panics; runtime teardown at any
//! point neither panics nor hangs.

use crate::report::{CheckMeta, UnitResult};
use crate::simrun::{explore_sim, sim_exec, Judged};
use crate::world::*;
use crate::{Check, Tier};
use anemo::types::{PeerAffinity, PeerEvent};
use futures::FutureExt;
use serde_json::{json, Map, Value};
use std::sync::Arc;
use tokio::sync::broadcast;

pub struct C08;

const SHUTDOWN_IDLE_MS: u64 = 700;
const IDLE_MS: u64 = 3_000;
const BOUND_SLACK_MS: u64 = 200;

#[derive(Clone, Debug, Default)]
pub struct Obs {
    pub log: Vec<String>,
    pub violations: Vec<(String, String)>,
    pub class: String,
}

fn cfg_n() -> anemo::Config {
    let mut c = anemo::Config::default();
    c.shutdown_idle_timeout_ms = Some(SHUTDOWN_IDLE_MS);
    c.connect_timeout_ms = Some(2_500);
    c.connectivity_check_interval_ms = Some(1_000);
    let mut q = anemo::QuicConfig::default();
    q.max_idle_timeout_ms = Some(IDLE_MS);
    q.keep_alive_interval_ms = Some(1_000);
    c.quic = Some(q);
    c
}

fn cfg_peer() -> anemo::Config {
    let mut c = anemo::Config::default();
    c.connectivity_check_interval_ms = Some(3_600_000);
    let mut q = anemo::QuicConfig::default();
    q.max_idle_timeout_ms = Some(IDLE_MS);
    q.keep_alive_interval_ms = Some(1_000);
    c.quic = Some(q);
    c
}

fn has(unit: &Value, key: &str, item: &str) -> bool {
    unit[key].as_array().map(|a| a.iter().any(|x| x == item)).unwrap_or(false)
}

async fn scenario(sim: Arc<Sim>, unit: Value) -> Obs {
    let mut o = Obs::default();
    macro_rules! viol {
        ($k:expr, $($arg:tt)*) => { o.violations.push(($k.to_string(), format!($($arg)*))) };
    }
    anemo::verif::set_jitter_override(Some(std::time::Duration::ZERO));
    let n_peers = unit["peers"].as_u64().unwrap() as usize;
    let crash = unit["crash"].as_str().unwrap_or("none").to_string();
    let action = unit["action"].as_str().unwrap_or("shutdown").to_string();
    let ctx = format!("[peers {n_peers}, in flight {}, concurrent {}, action {action}, crash {crash}{}{}]", unit["inflight"], unit["concurrent"], match unit["shutdown_idle_ms"].as_u64() { Some(v) => format!(", shutdown_idle_timeout {v} ms"), None => String::new() }, match (unit["connecting_cap"].as_u64(), unit["redial"].as_bool()) { (Some(v), _) => format!(", cap of {v} on connections being established"), (_, Some(true)) => ", every connection made a second time 50 ms earlier".to_string(), _ => String::new() });

    let mut cfg_under_test = cfg_n();
    // the configured bound on the idle wait; 0 and tiny values are legal
    let shutdown_idle_ms = unit["shutdown_idle_ms"].as_u64().unwrap_or(SHUTDOWN_IDLE_MS);
    cfg_under_test.shutdown_idle_timeout_ms = Some(shutdown_idle_ms);
    // optionally a small cap on connections being established, which the in-flight dials fill
    if let Some(cap) = unit["connecting_cap"].as_u64() {
        cfg_under_test.max_concurrent_outstanding_connecting_connections = Some(cap as usize);
    }
    if has(&unit, "concurrent", "flood") {
        // a one-slot mailbox between the API and the connection manager
        cfg_under_test.connection_manager_channel_capacity = Some(1);
    }
    let n = sim.start(&NodeSpec::new(1).config(cfg_under_test)).unwrap();
    let nn = sim.node_of(&n);
    let n_addr = n.local_addr();
    let n_id = n.peer_id();
    let p1 = sim.start(&NodeSpec::new(2).config(cfg_peer())).unwrap();
    let p2 = sim.start(&NodeSpec::new(3).config(cfg_peer())).unwrap();
    let p3 = sim.start(&NodeSpec::new(4).config(cfg_peer())).unwrap();
    let hole = std::net::UdpSocket::bind("127.0.0.1:0").unwrap();
    let hole_addr = hole.local_addr().unwrap();
    let (mut sub_n, _) = n.subscribe().unwrap();
    let (mut sub_p1, _) = p1.subscribe().unwrap();
    let (mut sub_p2, _) = p2.subscribe().unwrap();
    let weak = n.downgrade();
    let mut expected_lost: Vec<anemo::PeerId> = vec![];
    if n_peers >= 1 {
        if let Err(e) = n.connect(p1.local_addr()).await {
            viol!("setup", "{ctx} connect to p1: {e}");
        }
        expected_lost.push(p1.peer_id());
    }
    if n_peers >= 2 {
        if let Err(e) = p2.connect(n_addr).await {
            viol!("setup", "{ctx} p2 connect: {e}");
        }
        expected_lost.push(p2.peer_id());
    }
    tokio::time::sleep(ms(50)).await;
    // `redial`: every connection is made a second time (same direction) shortly before the
    // shutdown, so the registry has just replaced (or refused) a connection
    if unit["redial"].as_bool().unwrap_or(false) {
        if n_peers >= 1 {
            let _ = n.connect(p1.local_addr()).await;
        }
        if n_peers >= 2 {
            let _ = p2.connect(n_addr).await;
        }
        tokio::time::sleep(ms(50)).await;
    }

    // ---- work in flight at the moment of shutdown ----
    let mut pending_calls: Vec<(String, tokio::task::JoinHandle<Result<(), String>>)> = vec![];
    if has(&unit, "inflight", "out_rpc") && n_peers >= 1 {
        let (n2, to) = (n.clone(), p1.peer_id());
        pending_calls.push(("out_rpc".into(), tokio::spawn(async move { n2.rpc(to, Sim::request("o").with_header("never", "1")).await.map(|_| ()).map_err(|e| e.to_string()) })));
    }
    if has(&unit, "inflight", "in_rpc") && n_peers >= 1 {
        let (p, to) = (p1.clone(), n_id);
        // the caller is the peer: its outcome is not an API call of the network under test
        tokio::spawn(async move {
            let _ = p.rpc(to, Sim::request("i").with_header("never", "1")).await;
        });
    }
    if has(&unit, "inflight", "in_rpc2") && n_peers >= 2 {
        let (p, to) = (p2.clone(), n_id);
        tokio::spawn(async move {
            let _ = p.rpc(to, Sim::request("i2").with_header("sleep-ms", "300")).await;
        });
    }
    if has(&unit, "inflight", "dial_blackhole") {
        let n2 = n.clone();
        pending_calls.push(("dial_blackhole".into(), tokio::spawn(async move { n2.connect(hole_addr).await.map(|_| ()).map_err(|e| e.to_string()) })));
    }
    if has(&unit, "inflight", "bg_dial") {
        n.known_peers().insert(known_peer(peer_id_of_key(9), PeerAffinity::High, vec![hole_addr]));
        // wait for the next connectivity check to start the dial
        tokio::time::sleep(ms(1_000)).await;
    }
    let mid = unit["mid_handshake_after"].as_u64();
    if has(&unit, "inflight", "dial_mid") {
        let (n2, to) = (n.clone(), p3.local_addr());
        let trig = sim.fabric.arm_trigger(nn, mid.unwrap_or(1) as usize);
        pending_calls.push(("dial_mid".into(), tokio::spawn(async move { n2.connect(to).await.map(|_| ()).map_err(|e| e.to_string()) })));
        let _ = tokio::time::timeout(ms(200), trig).await;
    } else if has(&unit, "inflight", "inbound_mid") {
        let (p, to) = (p3.clone(), n_addr);
        let trig = sim.fabric.arm_trigger(sim.node_of(&p3), mid.unwrap_or(1) as usize);
        tokio::spawn(async move {
            let _ = p.connect(to).await;
        });
        let _ = tokio::time::timeout(ms(200), trig).await;
    } else {
        tokio::time::sleep(ms(30)).await;
    }
    if has(&unit, "inflight", "in_rpc") && n_peers >= 1 && sim.svc.started("i") == 0 {
        viol!("setup", "{ctx} inbound rpc did not reach the handler before shutdown");
    }

    // ---- faults / crash points before the action ----
    match crash.as_str() {
        "kill_ep_driver" => {
            sim.fabric.kill_endpoint_driver(nn);
            tokio::time::sleep(ms(20)).await;
        }
        "socket_error" => {
            sim.fabric.fail_recv(nn);
            tokio::time::sleep(ms(20)).await;
        }
        "abort_handlers" => {
            // the runtime cancels handler tasks while the manager is still polled, then goes away
            anemo::verif::abort_connection_handlers(&n).await;
            for _ in 0..5 {
                tokio::task::yield_now().await;
            }
        }
        "abort_pending" => {
            anemo::verif::abort_pending_connections(&n).await;
            for _ in 0..5 {
                tokio::task::yield_now().await;
            }
        }
        _ => {}
    }
    let keep_all = |sim: &Arc<Sim>, v: Vec<Box<dyn std::any::Any + Send>>| sim.keep.lock().unwrap().extend(v);
    if crash == "rt_drop_before" || crash.ends_with("_then_drop") {
        if crash == "kill_ep_driver_then_drop" {
            sim.fabric.kill_endpoint_driver(nn);
            for _ in 0..5 {
                tokio::task::yield_now().await;
            }
        }
        if crash == "kill_conn_drivers_then_drop" {
            sim.fabric.kill_connection_drivers(nn);
            for _ in 0..5 {
                tokio::task::yield_now().await;
            }
        }
        if crash == "abort_handlers_then_drop" {
            anemo::verif::abort_connection_handlers(&n).await;
            for _ in 0..5 {
                tokio::task::yield_now().await;
            }
        }
        if crash == "abort_pending_then_drop" {
            anemo::verif::abort_pending_connections(&n).await;
            for _ in 0..5 {
                tokio::task::yield_now().await;
            }
        }
        // tear the runtime down with every handle still alive
        let n3 = n.clone();
        sim.post.lock().unwrap().push(Box::new(move || {
            // handles must stay usable (synchronously) without a runtime
            let _ = n3.peers();
            let _ = n3.is_closed();
            let _ = n3.disconnect(n3.peer_id());
            vec![]
        }));
        keep_all(&sim, vec![Box::new(n), Box::new(p1), Box::new(p2), Box::new(p3), Box::new(hole)]);
        o.class = format!("teardown:{crash}");
        return o;
    }

    // ---- the action ----
    if unit["fates"].as_bool().unwrap_or(false) {
        // datagram fates become choice points from the moment of shutdown on
        sim.fabric.set_fate_window(0, 16);
    }
    let t0 = sim.now_us();
    let mut concurrent: Vec<(String, tokio::task::JoinHandle<Result<(), String>>)> = vec![];
    let spawn_concurrent = |n: &anemo::Network, concurrent: &mut Vec<(String, tokio::task::JoinHandle<Result<(), String>>)>| {
        if has(&unit, "concurrent", "connect") {
            let (n2, to) = (n.clone(), p3.local_addr());
            concurrent.push(("connect".into(), tokio::spawn(async move { n2.connect(to).await.map(|_| ()).map_err(|e| e.to_string()) })));
        }
        if has(&unit, "concurrent", "rpc") {
            let (n2, to) = (n.clone(), p1.peer_id());
            concurrent.push(("rpc".into(), tokio::spawn(async move { n2.rpc(to, Sim::request("c")).await.map(|_| ()).map_err(|e| e.to_string()) })));
        }
        if has(&unit, "concurrent", "shutdown") {
            let n2 = n.clone();
            concurrent.push(("second-shutdown".into(), tokio::spawn(async move { n2.shutdown().await.map_err(|e| e.to_string()) })));
        }
        if has(&unit, "concurrent", "sync") {
            let _ = n.subscribe();
            let _ = n.peers();
            let _ = n.disconnect(p1.peer_id());
        }
    };
    let mut dropped_all_handles = false;
    match action.as_str() {
        "shutdown" | "shutdown_then_calls" => {
            if has(&unit, "concurrent", "flood") {
                // three connect calls issued in the same scheduler turn, before shutdown(): the
                // manager's mailbox is full when the shutdown request is submitted
                for _ in 0..3 {
                    let n2 = n.clone();
                    concurrent.push(("connect".into(), tokio::spawn(async move { n2.connect(hole_addr).await.map(|_| ()).map_err(|e| e.to_string()) })));
                }
            }
            let n2 = n.clone();
            let sd = tokio::spawn(async move { n2.shutdown().await.map_err(|e| e.to_string()) });
            tokio::task::yield_now().await;
            spawn_concurrent(&n, &mut concurrent);
            if crash == "rt_drop_during" {
                let k = unit["drop_after"].as_u64().unwrap_or(1) as usize;
                let trig = sim.fabric.arm_trigger(nn, k);
                let _ = tokio::time::timeout(ms(300), trig).await;
                keep_all(&sim, vec![Box::new(n), Box::new(p1), Box::new(p2), Box::new(p3), Box::new(hole), Box::new(sd)]);
                o.class = "teardown:rt_drop_during".into();
                return o;
            }
            match tokio::time::timeout(ms(20_000), sd).await {
                Err(_) => viol!("shutdown-hangs", "{ctx} shutdown() did not return within 20 s"),
                Ok(Err(e)) => viol!("shutdown-panics", "{ctx} the shutdown task died: {e}"),
                Ok(Ok(r)) => {
                    let took = (sim.now_us() - t0) / 1000;
                    o.log.push(format!("shutdown -> {r:?} after {took} ms"));
                    if let Err(e) = r {
                        if !crash.starts_with("kill") && crash != "socket_error" && !crash.starts_with("abort") {
                            viol!("shutdown-error", "{ctx} shutdown() returned an error: {e}");
                        }
                    }
                    if took > shutdown_idle_ms + BOUND_SLACK_MS {
                        viol!("shutdown-exceeds-bound", "{ctx} shutdown() took {took} ms; the configured idle-wait bound is {shutdown_idle_ms} ms");
                    }
                }
            }
        }
        "drop" => {
            // dropping the last handle must shut the network down just the same
            spawn_concurrent(&n, &mut concurrent);
            for (_, h) in concurrent.drain(..) {
                h.abort();
            }
            for (_, h) in pending_calls.drain(..) {
                h.abort();
            }
            tokio::task::yield_now().await;
            drop(n.clone());
            dropped_all_handles = true;
        }
        _ => {}
    }
    let n_opt = if dropped_all_handles {
        drop(n);
        None
    } else {
        Some(n)
    };
    if crash == "rt_drop_after" {
        keep_all(&sim, vec![Box::new(n_opt), Box::new(p1), Box::new(p2), Box::new(p3), Box::new(hole)]);
        o.class = "teardown:rt_drop_after".into();
        return o;
    }

    // ---- afterwards ----
    // subscribers: pending LostPeer events, then end of stream, within the bound
    let mut got: Vec<PeerEvent> = vec![];
    let deadline = ms(shutdown_idle_ms + BOUND_SLACK_MS + if dropped_all_handles { 100 } else { 0 });
    let ended = tokio::time::timeout(deadline, async {
        loop {
            match sub_n.recv().await {
                Ok(e) => got.push(e),
                Err(broadcast::error::RecvError::Closed) => break,
                Err(broadcast::error::RecvError::Lagged(_)) => {}
            }
        }
    })
    .await
    .is_ok();
    if !ended {
        viol!("subscriber-stream-not-ended", "{ctx} the event stream did not end within the bound after {action}; events so far {:?}", got.iter().map(|e| event_str(&sim, e)).collect::<Vec<_>>());
    }
    let faulty = crash != "none";
    if let Err(e) = check_alternation(&got, &[]) {
        // the subscription predates every connection, so the stream must be a valid change log
        viol!("subscriber-events", "{ctx} {e}: {:?}", got.iter().map(|e| event_str(&sim, e)).collect::<Vec<_>>());
    }
    for p in &expected_lost {
        let lost = got.iter().any(|e| matches!(e, PeerEvent::LostPeer(q, _) if q == p));
        if !lost && !faulty {
            viol!("subscriber-events", "{ctx} no LostPeer({}) before the end of the stream: {:?}", sim.label(p), got.iter().map(|e| event_str(&sim, e)).collect::<Vec<_>>());
        }
    }
    // address re-bindable at once
    match std::net::UdpSocket::bind(n_addr) {
        Ok(s) => drop(s),
        Err(e) => viol!("address-not-released", "{ctx} the socket address cannot be re-bound after {action}: {e}"),
    }
    // every clone of the user's service dropped
    let live = sim.svc.live_clones(nn);
    if live != 0 {
        viol!("service-clones-leaked", "{ctx} {live} clone(s) of the user service are still alive after {action}");
    }
    if weak.upgrade().is_some() {
        viol!("weak-ref-upgrades", "{ctx} NetworkRef::upgrade() still yields a network after {action}");
    }
    if let Some(n) = &n_opt {
        if !n.is_closed() {
            viol!("not-closed", "{ctx} is_closed() is false after shutdown");
        }
        if !n.peers().is_empty() {
            viol!("not-closed", "{ctx} peers() is not empty after shutdown");
        }
        // calls issued after shutdown: errors, not hangs
        let after = async {
            let mut bad = vec![];
            if n.connect(p3.local_addr()).await.is_ok() {
                bad.push("connect succeeded");
            }
            if n.rpc(p1.peer_id(), Sim::request("late")).await.is_ok() {
                bad.push("rpc succeeded");
            }
            if n.subscribe().is_ok() {
                bad.push("subscribe succeeded");
            }
            if n.disconnect(p1.peer_id()).is_ok() {
                bad.push("disconnect succeeded");
            }
            if n.shutdown().await.is_ok() {
                bad.push("second shutdown succeeded");
            }
            bad
        };
        match tokio::time::timeout(ms(5_000), after).await {
            Err(_) => viol!("call-after-shutdown-hangs", "{ctx} an API call issued after shutdown did not return within 5 s"),
            Ok(bad) => {
                if !bad.is_empty() {
                    viol!("call-after-shutdown-succeeds", "{ctx} after shutdown: {bad:?}");
                }
            }
        }
    }
    // calls that were pending at shutdown and calls issued concurrently with it
    for (name, h) in pending_calls.into_iter().chain(concurrent) {
        match tokio::time::timeout(ms(5_000), h).await {
            Err(_) => viol!("pending-call-hangs", "{ctx} the {name} call pending at shutdown never returned"),
            Ok(Err(e)) if e.is_panic() => viol!("pending-call-panics", "{ctx} the {name} call panicked"),
            Ok(Err(_)) => {}
            Ok(Ok(Ok(()))) => {
                if name != "connect" && name != "rpc" && name != "dial_mid" {
                    viol!("pending-call-succeeds", "{ctx} the {name} call pending at shutdown reported success");
                }
            }
            Ok(Ok(Err(_))) => {}
        }
    }
    // remote peers observe the disconnect no later than the idle timeout
    tokio::time::sleep(ms(IDLE_MS + 1_500)).await;
    for (p, sub, name) in [(&p1, &mut sub_p1, "p1"), (&p2, &mut sub_p2, "p2")] {
        let evs = drain_events(sub);
        if p.peers().contains(&n_id) {
            viol!("remote-not-notified", "{ctx} {name} still lists the network {} ms after its shutdown; its events: {:?}", IDLE_MS + 1_500, evs.iter().map(|e| event_str(&sim, e)).collect::<Vec<_>>());
        }
    }
    o.class = format!("{action} ended={ended} events={}", got.len().min(4));
    o
}

fn judge(o: &Obs) -> Judged {
    Judged { class: o.class.clone(), violations: o.violations.clone(), sample: Some(json!(o.log)) }
}

fn subsets(items: &[&str], max: usize) -> Vec<Vec<String>> {
    let mut out = vec![vec![]];
    for i in 0..items.len() {
        out.push(vec![items[i].to_string()]);
        if max >= 2 {
            for j in (i + 1)..items.len() {
                out.push(vec![items[i].to_string(), items[j].to_string()]);
                if max >= 3 {
                    for k in (j + 1)..items.len() {
                        out.push(vec![items[i].to_string(), items[j].to_string(), items[k].to_string()]);
                    }
                }
            }
        }
    }
    out
}

impl Check for C08 {
    fn meta(&self, _tier: Tier) -> CheckMeta {
        CheckMeta {
            property: "C08",
            level: "fault_enumeration",
            rule: "network under test with 0-2 connected peers; every subset (size <= 2 quick / 3 thorough) of in-flight work {outbound rpc, inbound rpc being served, second inbound rpc, explicit dial to a black hole, background dial, outbound dial cut after its k-th datagram, inbound handshake cut after its k-th datagram} x concurrent API calls {connect, rpc, second shutdown, subscribe/peers/disconnect, three connects filling a one-slot manager mailbox just before shutdown()} x action {shutdown, drop of the last handle}; shutdown_idle_timeout 700 ms, and 0 / 30 ms for subsets of size <= 2; in-flight dials filling a cap of 1 on connections being established; crash points: runtime dropped before / during (after each k-th datagram of the close exchange) / after shutdown with handles alive, endpoint driver killed, connection drivers killed, fatal socket error, handler or pending tasks cancelled while the manager is still polled; plus datagram-fate deviations on the close exchange; distinct = distinct (action, stream end, event count / teardown point)".into(),
            assumptions: vec![
                "multi-thread runtime teardown is emulated on one thread by cancelling task classes (hook H5) or killing quinn driver tasks at quiescent points, then dropping the runtime".into(),
                "a wall-clock watchdog turns a poll that never returns into a 'hang' verdict".into(),
            ],
            exhaustive: true,
        }
    }

    fn units(&self, tier: Tier) -> Vec<Value> {
        let mut u = vec![];
        let items = ["out_rpc", "in_rpc", "in_rpc2", "dial_blackhole", "bg_dial"];
        let concs: Vec<Vec<&str>> = vec![vec![], vec!["connect"], vec!["rpc"], vec!["shutdown"], vec!["sync"], vec!["connect", "rpc", "shutdown", "sync"], vec!["flood"], vec!["flood", "rpc", "shutdown"]];
        for peers in 0..=2u64 {
            for inflight in subsets(&items, 3) {
                for action in ["shutdown", "drop"] {
                    for (ci, conc) in concs.iter().enumerate() {
                        if ci >= 6 && action == "drop" {
                            continue;
                        }
                        if tier == Tier::Quick && ci != 0 && ci != 5 && ci != 6 && inflight.len() > 2 {
                            continue;
                        }
                        u.push(json!({"peers":peers,"inflight":inflight,"concurrent":conc,"action":action,"crash":"none","bound":0}));
                    }
                }
                // the in-flight dials fill a cap of 1 on connections being established
                if inflight.iter().any(|i| *i == "dial_blackhole" || *i == "bg_dial") && inflight.len() <= 2 {
                    for action in ["shutdown", "drop"] {
                        u.push(json!({"peers":peers,"inflight":inflight,"concurrent":[],"action":action,"crash":"none","bound":0,"connecting_cap":1}));
                    }
                }
                // every connection made twice just before (a replaced connection is around)
                if inflight.len() <= 1 && peers >= 1 {
                    for action in ["shutdown", "drop"] {
                        u.push(json!({"peers":peers,"inflight":inflight,"concurrent":[],"action":action,"crash":"none","bound":0,"redial":true}));
                    }
                }
                // other values of the configured idle-wait bound
                if inflight.len() <= 2 {
                    for idle in [0u64, 30] {
                        for action in ["shutdown", "drop"] {
                            u.push(json!({"peers":peers,"inflight":inflight,"concurrent":[],"action":action,"crash":"none","bound":0,"shutdown_idle_ms":idle}));
                        }
                    }
                }
                // crash points
                for crash in ["rt_drop_before", "rt_drop_after", "kill_ep_driver", "socket_error", "abort_handlers", "abort_pending", "abort_handlers_then_drop", "abort_pending_then_drop", "kill_ep_driver_then_drop", "kill_conn_drivers_then_drop"] {
                    if tier == Tier::Quick && inflight.len() > 2 {
                        continue;
                    }
                    u.push(json!({"peers":peers,"inflight":inflight,"concurrent":[],"action":"shutdown","crash":crash,"bound":0}));
                }
                if inflight.len() <= 1 {
                    for k in 1..=tier.pick(4u64, 16) {
                        u.push(json!({"peers":peers,"inflight":inflight,"concurrent":[],"action":"shutdown","crash":"rt_drop_during","drop_after":k,"bound":0}));
                    }
                }
            }
            // handshakes cut at every datagram
            for which in ["dial_mid", "inbound_mid"] {
                for k in 1..=5u64 {
                    for action in ["shutdown", "drop"] {
                        u.push(json!({"peers":peers,"inflight":[which],"mid_handshake_after":k,"concurrent":[],"action":action,"crash":"none","bound":0}));
                    }
                    u.push(json!({"peers":peers,"inflight":[which],"mid_handshake_after":k,"concurrent":[],"action":"shutdown","crash":"rt_drop_before","bound":0}));
                }
            }
            // datagram fates over the close exchange
            let fate_sets: Vec<Vec<&str>> = match tier {
                Tier::Quick => vec![vec![], vec!["out_rpc"], vec!["in_rpc"]],
                Tier::Thorough => vec![vec![], vec!["out_rpc"], vec!["in_rpc"], vec!["in_rpc2"], vec!["dial_blackhole"], vec!["out_rpc", "in_rpc"], vec!["out_rpc", "dial_blackhole"], vec!["in_rpc", "in_rpc2"]],
            };
            for inflight in fate_sets {
                for action in ["shutdown", "drop"] {
                    if tier == Tier::Quick && action == "drop" && !inflight.is_empty() {
                        continue;
                    }
                    u.push(json!({"peers":peers,"inflight":inflight,"concurrent":[],"action":action,"crash":"none","bound":tier.pick(1, 2),"fates":true}));
                }
            }
        }
        u
    }

    fn run_unit(&self, _tier: Tier, unit: &Value, out: &mut UnitResult) {
        let bound = unit["bound"].as_u64().unwrap_or(0) as usize;
        let u = unit.clone();
        let fates = unit["fates"].as_bool().unwrap_or(false);
        explore_sim(
            out,
            crate::seed(),
            unit,
            2_000,
            bound,
            5_000,
            true,
            move |sim| {
                let u = u.clone();
                async move {
                    let _ = fates;
                    scenario(sim, u).await
                }
                .boxed()
            },
            |o: &Obs, _p, _c| judge(o),
        );
    }

    fn replay(&self, replay: &Value) -> String {
        let unit = replay["unit"].clone();
        let choices: Vec<u32> = replay["choices"].as_array().map(|a| a.iter().map(|x| x.as_u64().unwrap() as u32).collect()).unwrap_or_default();
        let seed = replay["seed"].as_u64().unwrap_or(1);
        let u = unit.clone();
        let fates = unit["fates"].as_bool().unwrap_or(false);
        let o = sim_exec(seed, &choices, 2_000, move |sim| {
            async move {
                let _ = fates;
                scenario(sim, u).await
            }
            .boxed()
        });
        match o.run {
            Some(r) => format!("unit {unit}\nchoices {choices:?}\n{}\nclass {}\nviolations {:#?}\npost {:?}\npanics {:?}", r.obs.log.join("\n"), r.obs.class, r.obs.violations, r.post, o.panics),
            None => format!("execution hung={} panics={:?}", o.hung, o.panics),
        }
    }

    fn finish(&self, _tier: Tier, total: &mut UnitResult) -> Map<String, Value> {
        for need in ["shutdown ended=true", "drop ended=true", "teardown:rt_drop_before", "teardown:rt_drop_during", "teardown:rt_drop_after"] {
            if !total.classes.keys().any(|k| k.starts_with(need)) {
                total.machinery_errors.push(format!("vacuous: no execution of class `{need}`"));
            }
        }
        Map::new()
    }
}
