//! C15 — message size limits are exact, symmetric and confined to the RPC.

use crate::report::{CheckMeta, UnitResult};
use crate::simrun::{explore_sim, sim_exec, Judged};
use crate::world::*;
use crate::{Check, Tier};
use futures::FutureExt;
use serde_json::{json, Map, Value};
use std::collections::BTreeMap;
use std::sync::Arc;

pub struct C15;

const MIB8: usize = 8 << 20;

fn map_size(m: &BTreeMap<String, String>) -> usize {
    8 + m.iter().map(|(k, v)| 16 + k.len() + v.len()).sum::<usize>()
}
/// bincode (fixed-int) size of the request header frame
fn req_header_size(s: &RpcSpec) -> usize {
    8 + s.route.len() + map_size(&s.headers)
}
/// (request header, request body, response header, response body) frame payload sizes
fn frame_sizes(s: &RpcSpec) -> (usize, usize, usize, usize) {
    let (_, rh, rb) = expected_response(&s.headers, &s.route, &s.body);
    (req_header_size(s), s.body.len(), 2 + map_size(&rh), rb.len())
}

/// Build the RPC whose `which` frame has exactly `n` payload bytes.
fn make_spec(id: &str, which: &str, n: usize) -> Option<RpcSpec> {
    let base = RpcSpec::new(id).route("/s");
    match which {
        "req_body" => Some(base.body(pattern_body(n as u64, n))),
        "resp_body" => Some(base.header("resp-len", format!("{n}"))),
        "req_hdr" => {
            let b = req_header_size(&base) + 16 + 4; // + entry "qpad"
            if n < b {
                return None;
            }
            Some(base.header("qpad", "q".repeat(n - b)))
        }
        "resp_hdr" => {
            // find m such that the response header frame is n bytes (digits of m feed back into
            // nothing on the response side: resp-pad itself is not echoed)
            for m in 0..=n {
                let s = base.clone().header("resp-pad", format!("{m}"));
                let (_, _, rh, _) = frame_sizes(&s);
                if rh == n {
                    return Some(s);
                }
                if rh > n {
                    return None;
                }
                // jump close to the target
                if n - rh > 2 {
                    let s2 = base.clone().header("resp-pad", format!("{}", m + (n - rh)));
                    let (_, _, rh2, _) = frame_sizes(&s2);
                    if rh2 == n {
                        return Some(s2);
                    }
                }
            }
            None
        }
        _ => None,
    }
}

#[derive(Clone, Debug)]
pub struct CaseObs {
    pub which: String,
    pub n: usize,
    pub sizes: (usize, usize, usize, usize),
    pub result: Result<Result<(), String>, String>, // Ok(Ok) intact, Ok(Err) mismatch, Err = rpc error
    pub pending: bool,
    pub dur_us: u64,
    pub caller_bytes_sent: usize,
    pub follow_up: Result<(), String>,
    pub handler_started: bool,
}

#[derive(Clone, Debug)]
pub struct Obs {
    pub cases: Vec<CaseObs>,
    pub lost_events: Vec<String>,
    pub setup_error: Option<String>,
}

fn cfg(limit: Option<usize>) -> anemo::Config {
    let mut c = anemo::Config::default();
    c.max_frame_size = limit;
    c
}

fn limits(unit: &Value) -> (Option<usize>, Option<usize>) {
    (
        unit["caller_limit"].as_u64().map(|x| x as usize),
        unit["callee_limit"].as_u64().map(|x| x as usize),
    )
}

fn cases_of(unit: &Value) -> Vec<(String, usize)> {
    unit["cases"]
        .as_array()
        .unwrap()
        .iter()
        .map(|c| (c[0].as_str().unwrap().to_string(), c[1].as_u64().unwrap() as usize))
        .collect()
}

async fn scenario(sim: Arc<Sim>, unit: Value) -> Obs {
    let (lc, ls) = limits(&unit);
    let a = sim.start(&NodeSpec::new(1).config(cfg(lc))).unwrap();
    let b = sim.start(&NodeSpec::new(2).config(cfg(ls))).unwrap();
    let (na, _nb) = (sim.node_of(&a), sim.node_of(&b));
    let mut obs = Obs {
        cases: vec![],
        lost_events: vec![],
        setup_error: None,
    };
    let (mut ea, _) = a.subscribe().unwrap();
    let (mut eb, _) = b.subscribe().unwrap();
    if let Err(e) = a.connect(b.local_addr()).await {
        obs.setup_error = Some(format!("connect: {e}"));
        return obs;
    }
    tokio::time::sleep(ms(50)).await;
    let _ = drain_events(&mut ea);
    let _ = drain_events(&mut eb);
    let reverse = unit["reverse"].as_bool().unwrap_or(false);
    let mut kept: Option<anemo::Peer> = None;
    for (i, (which, n)) in cases_of(&unit).into_iter().enumerate() {
        let id = format!("c{i}");
        let Some(spec) = make_spec(&id, &which, n) else {
            continue;
        };
        let sizes = frame_sizes(&spec);
        let sent_before: usize = sim.fabric.log().iter().filter(|d| d.src == na).map(|d| d.len).sum();
        let t0 = sim.now_us();
        // `reverse`: the callee of the unit makes the call instead (limits swap roles)
        let (from, to) = if reverse { (&b, a.peer_id()) } else { (&a, b.peer_id()) };
        // `via_handle`: the caller keeps ONE Peer handle for the whole unit; the calls go through
        // it and the follow-ups through a clone of it (a refusal concerns that RPC only, not the
        // handle it was made through)
        let via_handle = unit["via_handle"].as_bool().unwrap_or(false);
        if via_handle && kept.is_none() {
            kept = from.peer(to);
        }
        let r = match (via_handle, kept.as_mut()) {
            (true, Some(h)) => tokio::time::timeout(ms(25_000), do_rpc_via(&sim, h, &spec)).await,
            _ => tokio::time::timeout(ms(25_000), do_rpc(&sim, from, to, &spec)).await,
        };
        let dur_us = sim.now_us() - t0;
        let sent_after: usize = sim.fabric.log().iter().filter(|d| d.src == na).map(|d| d.len).sum();
        let (result, pending) = match r {
            Err(_) => (Err("pending at the 25 s horizon".to_string()), true),
            Ok(o) => match o.result {
                Ok(ok) => (Ok(check_response(&spec, &ok, to)), false),
                Err(e) => (Err(e), false),
            },
        };
        let handler_started = sim.svc.started(&id) > 0;
        let f = RpcSpec::new(&format!("f{i}")).route("/follow").body(pattern_body(1, 10));
        let follow = match (via_handle, kept.clone()) {
            (true, Some(mut h)) => tokio::time::timeout(ms(5_000), async { do_rpc_via(&sim, &mut h, &f).await }).await,
            _ => tokio::time::timeout(ms(5_000), do_rpc(&sim, from, to, &f)).await,
        };
        let follow_up = match follow {
            Err(_) => Err("follow-up pending after 5 s".to_string()),
            Ok(o) => match o.result {
                Ok(ok) => check_response(&f, &ok, to),
                Err(e) => Err(e),
            },
        };
        obs.cases.push(CaseObs {
            which,
            n,
            sizes,
            result,
            pending,
            dur_us,
            caller_bytes_sent: sent_after - sent_before,
            follow_up,
            handler_started,
        });
    }
    tokio::time::sleep(ms(500)).await;
    for e in drain_events(&mut ea).into_iter().chain(drain_events(&mut eb)) {
        obs.lost_events.push(event_str(&sim, &e));
    }
    obs
}

fn judge(unit: &Value, o: &Obs) -> Judged {
    let mut v: Vec<(String, String)> = vec![];
    if let Some(e) = &o.setup_error {
        v.push(("setup".into(), e.clone()));
    }
    let (mut lc, mut ls) = limits(unit);
    if unit["reverse"].as_bool().unwrap_or(false) {
        std::mem::swap(&mut lc, &mut ls);
    }
    let over = |n: usize, l: Option<usize>| l.map(|l| n > l).unwrap_or(false);
    let mut kinds = vec![];
    for c in &o.cases {
        let (qh, qb, rh, rb) = c.sizes;
        let ctx = format!(
            "[caller limit {lc:?}, callee limit {ls:?}, {} = {} bytes; frames: request header {qh}, request body {qb}, response header {rh}, response body {rb}]",
            c.which, c.n
        );
        let sender_refuses = over(qh, lc) || over(qb, lc);
        let callee_refuses_req = over(qh, ls) || over(qb, ls);
        let callee_refuses_resp = over(rh, ls) || over(rb, ls);
        let caller_refuses_resp = over(rh, lc) || over(rb, lc);
        let expect_err = sender_refuses || callee_refuses_req || callee_refuses_resp || caller_refuses_resp;
        let kind;
        if expect_err {
            kind = if sender_refuses { "refused-by-sender" } else if callee_refuses_req { "refused-by-receiver" } else if callee_refuses_resp { "response-refused-by-sender" } else { "response-refused-by-receiver" };
            match &c.result {
                Err(_) if !c.pending => {}
                Err(_) => v.push(("oversize-hangs".into(), format!("{ctx} the oversized RPC neither failed nor completed within 25 s"))),
                Ok(_) => v.push(("limit-not-enforced".into(), format!("{ctx} a frame above the limit was delivered"))),
            }
            if (sender_refuses || callee_refuses_req) == false && !c.handler_started && c.result.is_err() && !c.pending {
                // response-side refusal: the request itself was within limits and must have been served
                v.push(("limit-over-enforced".into(), format!("{ctx} the request was within both limits but never reached the handler")));
            }
            if (sender_refuses || callee_refuses_req) && c.handler_started {
                v.push(("limit-not-enforced".into(), format!("{ctx} a request above the limit reached the handler")));
            }
            if sender_refuses && over(qb, lc) && qb >= 65_536 && c.caller_bytes_sent * 2 > qb {
                v.push(("sent-before-refusal".into(), format!("{ctx} the sender put {} bytes on the wire for a body it must refuse before transmission", c.caller_bytes_sent)));
            }
            if !c.pending && c.dur_us > 10_000_000 {
                v.push(("oversize-slow".into(), format!("{ctx} the refusal took {} ms", c.dur_us / 1000)));
            }
        } else {
            kind = "delivered";
            let biggest = qh.max(qb).max(rh).max(rb);
            // the listed finding concerns an end WITHOUT a configured limit only
            let unlimited_side_hit = biggest > MIB8 && (lc.is_none() || ls.is_none());
            match &c.result {
                Ok(Ok(())) => {}
                Ok(Err(e)) => v.push(("truncated-or-altered".into(), format!("{ctx} {e}"))),
                Err(e) => {
                    let key = if unlimited_side_hit {
                        "no-limit-configured:frame-over-8MiB-refused"
                    } else {
                        "limit-over-enforced"
                    };
                    v.push((key.into(), format!("{ctx} a message within every configured limit failed: {e}")));
                }
            }
        }
        if let Err(e) = &c.follow_up {
            v.push(("connection-damaged".into(), format!("{ctx} the follow-up RPC on the same connection failed: {e}")));
        }
        kinds.push(format!("{}:{}:{}", c.which, kind, if c.result.is_err() { "err" } else { "ok" }));
    }
    if !o.lost_events.is_empty() {
        v.push(("connection-damaged".into(), format!("peer events during size-limit traffic: {:?}", o.lost_events)));
    }
    kinds.sort();
    kinds.dedup();
    Judged {
        class: kinds.join(","),
        violations: v,
        sample: Some(json!({"unit": unit, "cases": o.cases.iter().map(|c| format!("{}={} -> {:?} in {}us", c.which, c.n, c.result.as_ref().map(|r| r.is_ok()).map_err(|e| e.chars().take(60).collect::<String>()), c.dur_us)).collect::<Vec<_>>()})),
    }
}

impl Check for C15 {
    fn meta(&self, _tier: Tier) -> CheckMeta {
        CheckMeta {
            property: "C15",
            level: "exploration",
            rule: "limit placement {caller, callee, both, neither, both-different} x L in {128, 1024, 65536} x frame {request header, request body, response header, response body} x size {L-1, L, L+1, 2L} (exact bincode frame sizes computed by a reference), called in both directions, one fresh world per case and once all cases in sequence on one connection; with no limit sizes {8MiB-1, 8MiB, 8MiB+1, 16MiB}; with limits above 8 MiB on both ends (8 MiB + 4096; 16 MiB thorough) sizes {8MiB+1, L-1, L, L+1}; distinct = distinct (frame kind, expected refusal site, outcome)".into(),
            assumptions: vec!["frame sizes follow the bincode fixed-int layout (cross-checked by C07)".into()],
            exhaustive: true,
        }
    }

    fn units(&self, tier: Tier) -> Vec<Value> {
        let mut u = vec![];
        let frames = ["req_hdr", "req_body", "resp_hdr", "resp_body"];
        for l in [128usize, 1024, 65_536] {
            let placements: Vec<(Option<usize>, Option<usize>)> = vec![
                (Some(l), None),
                (None, Some(l)),
                (Some(l), Some(l)),
                (Some(l), Some(4 * l)),
                (Some(4 * l), Some(l)),
            ];
            for (lc, ls) in placements {
                let mut all = vec![];
                for f in frames {
                    for n in [l - 1, l, l + 1, 2 * l, 4 * l, 4 * l + 1] {
                        all.push(json!([f, n]));
                        for reverse in [false, true] {
                            if reverse && tier == Tier::Quick && l != 1024 {
                                continue;
                            }
                            u.push(json!({"caller_limit":lc,"callee_limit":ls,"cases":[[f,n]],"reverse":reverse}));
                            // the same through one kept Peer handle (and a clone of it afterwards)
                            if l == 1024 {
                                u.push(json!({"caller_limit":lc,"callee_limit":ls,"cases":[[f,n]],"reverse":reverse,"via_handle":true}));
                            }
                        }
                    }
                }
                u.push(json!({"caller_limit":lc,"callee_limit":ls,"cases":all,"reverse":false}));
                u.push(json!({"caller_limit":lc,"callee_limit":ls,"cases":all,"reverse":false,"via_handle":true}));
            }
        }
        // no limit anywhere, and a limit on one end only with a huge frame refused by nobody
        let big: Vec<usize> = match tier {
            Tier::Quick => vec![MIB8 - 1, MIB8, MIB8 + 1],
            Tier::Thorough => vec![MIB8 - 1, MIB8, MIB8 + 1, 2 * MIB8],
        };
        for f in ["req_body", "resp_body", "req_hdr", "resp_hdr"] {
            for n in &big {
                if tier == Tier::Quick && f.ends_with("hdr") && *n != MIB8 + 1 {
                    continue;
                }
                u.push(json!({"caller_limit":null,"callee_limit":null,"cases":[[f,n]],"reverse":false}));
            }
        }
        // limits configured ABOVE the codec library's 8 MiB default, on both ends
        let high: Vec<usize> = match tier {
            Tier::Quick => vec![MIB8 + 4096],
            Tier::Thorough => vec![MIB8 + 4096, 2 * MIB8],
        };
        for l in high {
            let cases: Vec<(&str, usize)> = match tier {
                Tier::Quick => vec![("req_body", MIB8 + 1), ("resp_body", l), ("req_body", l + 1), ("resp_hdr", l)],
                Tier::Thorough => {
                    let mut c = vec![];
                    for f in frames {
                        for n in [MIB8 + 1, l - 1, l, l + 1] {
                            c.push((f, n));
                        }
                    }
                    c
                }
            };
            for (f, n) in cases {
                u.push(json!({"caller_limit":l,"callee_limit":l,"cases":[[f,n]],"reverse":false}));
            }
        }
        u
    }

    fn run_unit(&self, _tier: Tier, unit: &Value, out: &mut UnitResult) {
        let u = unit.clone();
        let u2 = unit.clone();
        explore_sim(
            out,
            crate::seed(),
            unit,
            2_000,
            0,
            1,
            true,
            move |sim| scenario(sim, u.clone()).boxed(),
            |o: &Obs, _p, _c| judge(&u2, o),
        );
    }

    fn replay(&self, replay: &Value) -> String {
        let unit = replay["unit"].clone();
        let seed = replay["seed"].as_u64().unwrap_or(1);
        let u = unit.clone();
        let o = sim_exec(seed, &[], 2_000, move |sim| scenario(sim, u).boxed());
        match o.run {
            Some(r) => {
                let j = judge(&unit, &r.obs);
                format!("unit {unit}\nobserved {:#?}\nviolations {:?}\npanics {:?}", r.obs, j.violations, o.panics)
            }
            None => format!("execution hung={} panics={:?}", o.hung, o.panics),
        }
    }

    fn finish(&self, _tier: Tier, total: &mut UnitResult) -> Map<String, Value> {
        let all: String = total.classes.keys().cloned().collect::<Vec<_>>().join(",");
        for need in ["refused-by-sender", "refused-by-receiver", "response-refused-by-sender", "response-refused-by-receiver", "delivered"] {
            if !all.contains(need) {
                total.machinery_errors.push(format!("vacuous: no case of kind {need}"));
            }
        }
        Map::new()
    }
}
