//! C04 — at most one connection per peer; events are an exact change log.
//!
//! direct: the real registry (`ActivePeers`) is driven with real connections through every
//!         operation sequence up to a depth, against a reference model written from the statement;
//! history: whole networks go through every history of dials / disconnects / partitions / restarts
//!         up to a depth, with a subscription taken before every step (see `histories.rs`).

use crate::histories;
use crate::report::{CheckMeta, UnitResult};
use crate::simrun::{sim_exec, Judged};
use crate::world::*;
use crate::{Check, Tier};
use anemo::types::{DisconnectReason, PeerEvent};
use anemo::verif::{VActivePeers, VConnection, VEndpoint};
use anemo::PeerId;
use futures::FutureExt;
use serde_json::{json, Map, Value};
use std::collections::{BTreeMap, BTreeSet};
use std::sync::Arc;
use tokio::sync::broadcast;

pub struct C04;

// ------------------------------------------------------------------------------------------
// direct drive
// ------------------------------------------------------------------------------------------

#[derive(Clone, Copy, Debug, PartialEq, Eq, PartialOrd, Ord)]
enum Op {
    /// add a fresh connection with remote peer p (0/1), origin inbound?
    Add { p: usize, inbound: bool },
    Remove { p: usize },
    /// remove_with_stable_id using the id of the k-th connection ever added for p
    RemoveId { p: usize, k: usize },
    Subscribe,
    /// the REMOTE end of the latest connection of p closes it (the registry is not told: the
    /// entry stays until the connection's handler unregisters it by stable id)
    CloseRemote { p: usize },
}

fn op_str(o: &Op) -> String {
    match o {
        Op::Add { p, inbound } => format!("add(p{p},{})", if *inbound { "in" } else { "out" }),
        Op::Remove { p } => format!("remove(p{p})"),
        Op::RemoveId { p, k } => format!("remove_id(p{p},#{k})"),
        Op::Subscribe => "subscribe".into(),
        Op::CloseRemote { p } => format!("remote_close(p{p})"),
    }
}

/// enabled operations after `hist` (remove_id only for connections that exist)
fn enabled(hist: &[Op]) -> Vec<Op> {
    let mut v = vec![];
    for p in 0..2 {
        for inbound in [true, false] {
            v.push(Op::Add { p, inbound });
        }
    }
    for p in 0..2 {
        v.push(Op::Remove { p });
    }
    for p in 0..2 {
        let n = hist.iter().filter(|o| matches!(o, Op::Add { p: q, .. } if *q == p)).count();
        for k in 0..n {
            v.push(Op::RemoveId { p, k });
        }
    }
    v.push(Op::Subscribe);
    for p in 0..2 {
        if hist.iter().any(|o| matches!(o, Op::Add { p: q, .. } if *q == p)) {
            v.push(Op::CloseRemote { p });
        }
    }
    v
}

struct Pool {
    local: VEndpoint,
    remotes: Vec<VEndpoint>,
    /// the remote ends: dropping the last handle of a connection closes it
    keep: std::sync::Mutex<Vec<VConnection>>,
}

impl Pool {
    async fn fresh(&self, p: usize, inbound: bool) -> VConnection {
        let r = &self.remotes[p];
        if inbound {
            let (a, b) = tokio::join!(r.connect(self.local.local_addr(), None), self.local.accept());
            self.keep.lock().unwrap().push(a.expect("remote connect"));
            b.expect("accept").expect("accept conn")
        } else {
            let (a, b) = tokio::join!(self.local.connect(r.local_addr(), None), r.accept());
            self.keep.lock().unwrap().push(b.expect("accept").expect("accept conn"));
            a.expect("connect")
        }
    }
}

struct Sub {
    rx: broadcast::Receiver<PeerEvent>,
    replica: BTreeSet<PeerId>,
    taken_at: usize,
}

/// Run one operation sequence on a fresh registry; check the reference model after every step.
async fn run_sequence(pool: &Pool, own: PeerId, ids: &[PeerId; 2], seq: &[Op]) -> Result<String, (String, String)> {
    let ap = VActivePeers::new(256);
    // reference model
    let mut reg: BTreeMap<usize, usize> = BTreeMap::new(); // peer -> index into conns
    let mut conns: Vec<(usize, bool, VConnection)> = vec![]; // (peer, inbound, conn)
    let mut subs: Vec<Sub> = vec![];
    let mut shape = String::new();
    let mut remote_closed: BTreeSet<usize> = BTreeSet::new();
    for (step, op) in seq.iter().enumerate() {
        let mut expected_events: Vec<PeerEvent> = vec![];
        match *op {
            Op::Add { p, inbound } => {
                let c = pool.fresh(p, inbound).await;
                if c.peer_id() != ids[p] {
                    return Err(("setup".into(), "pooled connection has the wrong identity".into()));
                }
                let idx = conns.len();
                conns.push((p, inbound, c.clone()));
                // reference tie-break, from the statement: same direction -> the newer one wins;
                // opposite directions -> the one dialed by the greater identity wins
                let expect_registered = match reg.get(&p) {
                    None => true,
                    Some(&old) => {
                        let old_inbound = conns[old].1;
                        if old_inbound == inbound {
                            true
                        } else {
                            // dialer of the new connection: remote if inbound, else us
                            let new_dialer = if inbound { ids[p] } else { own };
                            let old_dialer = if old_inbound { ids[p] } else { own };
                            new_dialer > old_dialer
                        }
                    }
                };
                if expect_registered {
                    if reg.contains_key(&p) {
                        expected_events.push(PeerEvent::LostPeer(ids[p], DisconnectReason::Requested));
                    }
                    expected_events.push(PeerEvent::NewPeer(ids[p]));
                    reg.insert(p, idx);
                }
                let got = ap.add(&own, &c);
                if got != expect_registered {
                    return Err(("tie-break".into(), format!("step {step} {}: add returned registered={got}, reference says {expect_registered}", op_str(op))));
                }
                shape.push(if got { 'A' } else { 'r' });
            }
            Op::Remove { p } => {
                if reg.remove(&p).is_some() {
                    expected_events.push(PeerEvent::LostPeer(ids[p], DisconnectReason::Requested));
                    shape.push('X');
                } else {
                    shape.push('x');
                }
                ap.remove(&ids[p], DisconnectReason::Requested);
            }
            Op::RemoveId { p, k } => {
                let (idx, c) = conns.iter().enumerate().filter(|(_, c)| c.0 == p).nth(k).map(|(i, c)| (i, c.2.clone())).unwrap();
                if reg.get(&p) == Some(&idx) {
                    reg.remove(&p);
                    expected_events.push(PeerEvent::LostPeer(ids[p], DisconnectReason::ConnectionClosed));
                    shape.push('I');
                } else {
                    shape.push('s'); // stale id: must change nothing
                }
                ap.remove_with_stable_id(ids[p], c.stable_id(), DisconnectReason::ConnectionClosed);
            }
            Op::CloseRemote { p } => {
                // connection index == index of its remote end in the pool's keep list
                let idx = conns.iter().enumerate().filter(|(_, c)| c.0 == p).map(|(i, _)| i).last().unwrap();
                let remote = pool.keep.lock().unwrap()[idx].clone();
                remote.close();
                tokio::time::sleep(ms(30)).await;
                if conns[idx].2.close_reason().is_none() {
                    return Err(("setup".into(), format!("step {step}: the remote close did not reach the local end")));
                }
                remote_closed.insert(idx);
                shape.push('c');
            }
            Op::Subscribe => {
                let (rx, snap) = ap.subscribe();
                let set: BTreeSet<PeerId> = snap.iter().copied().collect();
                if set.len() != snap.len() {
                    return Err(("duplicate-listing".into(), format!("step {step}: subscription snapshot has duplicates")));
                }
                subs.push(Sub { rx, replica: set, taken_at: step });
                shape.push('S');
            }
        }
        // --- invariants after the step ---
        let listed = ap.peers();
        let set: BTreeSet<PeerId> = listed.iter().copied().collect();
        if set.len() != listed.len() {
            return Err(("duplicate-listing".into(), format!("step {step} {}: peers() has duplicates", op_str(op))));
        }
        let want: BTreeSet<PeerId> = reg.keys().map(|p| ids[*p]).collect();
        if set != want {
            return Err(("listing-differs".into(), format!("step {step} {}: peers() = {} entries, reference = {} entries (history {:?})", op_str(op), set.len(), want.len(), seq.iter().map(op_str).collect::<Vec<_>>())));
        }
        if ap.len() != want.len() {
            return Err(("listing-differs".into(), format!("step {step}: len() = {} but {} peers are registered", ap.len(), want.len())));
        }
        for (i, (p, _, c)) in conns.iter().enumerate() {
            let registered = reg.get(p) == Some(&i);
            let closed = c.close_reason().is_some();
            if registered && closed && !remote_closed.contains(&i) {
                return Err(("listed-but-closed".into(), format!("step {step} {}: the registered connection of p{p} is closed (history {:?})", op_str(op), seq.iter().map(op_str).collect::<Vec<_>>())));
            }
            if !registered && !closed {
                return Err(("second-live-connection".into(), format!("step {step} {}: connection #{i} of p{p} is neither registered nor closed (history {:?})", op_str(op), seq.iter().map(op_str).collect::<Vec<_>>())));
            }
            if registered {
                match ap.get(&ids[*p]) {
                    Some(g) if g.stable_id() == c.stable_id() => {}
                    _ => return Err(("listing-differs".into(), format!("step {step}: get(p{p}) is not the registered connection"))),
                }
            }
        }
        for s in subs.iter_mut() {
            let mut got = vec![];
            loop {
                match s.rx.try_recv() {
                    Ok(e) => got.push(e),
                    Err(broadcast::error::TryRecvError::Empty) => break,
                    Err(e) => return Err(("event-stream".into(), format!("step {step}: subscription error {e:?}"))),
                }
            }
            if s.taken_at < step && got != expected_events {
                return Err(("event-log".into(), format!("step {step} {}: subscriber (taken at step {}) received {:?}, expected {:?} (history {:?})", op_str(op), s.taken_at, got.len(), expected_events.len(), seq.iter().map(op_str).collect::<Vec<_>>())));
            }
            for e in &got {
                match e {
                    PeerEvent::NewPeer(p) => {
                        if !s.replica.insert(*p) {
                            return Err(("event-log".into(), format!("step {step}: NewPeer for a peer the subscriber already has")));
                        }
                    }
                    PeerEvent::LostPeer(p, _) => {
                        if !s.replica.remove(p) {
                            return Err(("event-log".into(), format!("step {step}: LostPeer for a peer the subscriber does not have")));
                        }
                    }
                }
            }
            if s.replica != set {
                return Err(("event-log".into(), format!("step {step} {}: snapshot (taken at step {}) + events does not reproduce peers() (history {:?})", op_str(op), s.taken_at, seq.iter().map(op_str).collect::<Vec<_>>())));
            }
        }
    }
    for (_, _, c) in &conns {
        c.close();
    }
    pool.keep.lock().unwrap().clear();
    Ok(shape)
}

#[derive(Default)]
pub struct DirectObs {
    sequences: u64,
    transitions: u64,
    shapes: BTreeMap<String, u64>,
    violations: Vec<(String, String, Vec<String>)>,
    samples: Vec<Vec<String>>,
}

async fn direct_world(sim: Arc<Sim>, unit: Value) -> DirectObs {
    let depth = unit["depth"].as_u64().unwrap() as usize;
    let own_greatest = unit["own_rank"].as_u64().unwrap() as usize; // 0: own is smallest, 1: middle, 2: greatest
    // choose three keys and assign them so that `own` has the requested rank
    let mut keys: Vec<u8> = vec![1, 2, 3];
    keys.sort_by_key(|k| peer_id_of_key(*k));
    let own_key = keys.remove(own_greatest);
    let cfg = anemo::Config::default();
    let mk = |k: u8| {
        let s = std::net::UdpSocket::bind("127.0.0.1:0").unwrap();
        VEndpoint::new(key_bytes(k), NET_NAME, None, &cfg, s).unwrap()
    };
    let pool = Pool { local: mk(own_key), remotes: vec![mk(keys[0]), mk(keys[1])], keep: Default::default() };
    let own = pool.local.peer_id();
    let ids = [pool.remotes[0].peer_id(), pool.remotes[1].peer_id()];
    let _ = &sim;
    let prefix: Vec<Op> = unit["prefix"].as_array().unwrap().iter().map(|v| parse_op(v)).collect();
    let mut obs = DirectObs::default();
    // depth-first enumeration of all sequences extending `prefix` up to `depth`
    let mut stack: Vec<Vec<Op>> = vec![prefix.clone()];
    while let Some(seq) = stack.pop() {
        if !seq.is_empty() {
            obs.sequences += 1;
            obs.transitions += seq.len() as u64;
            match run_sequence(&pool, own, &ids, &seq).await {
                Ok(shape) => {
                    *obs.shapes.entry(shape).or_default() += 1;
                    if obs.samples.len() < 2 && seq.len() == depth {
                        obs.samples.push(seq.iter().map(op_str).collect());
                    }
                }
                Err((k, m)) => {
                    if obs.violations.len() < 5 {
                        obs.violations.push((k, m, seq.iter().map(op_json).map(|v| v.to_string()).collect()));
                    }
                    continue; // do not extend a violating history
                }
            }
        }
        if seq.len() < depth {
            for op in enabled(&seq).into_iter().rev() {
                let mut n = seq.clone();
                n.push(op);
                stack.push(n);
            }
        }
    }
    obs
}

fn op_json(o: &Op) -> Value {
    match o {
        Op::Add { p, inbound } => json!({"op":"add","p":p,"inbound":inbound}),
        Op::Remove { p } => json!({"op":"remove","p":p}),
        Op::RemoveId { p, k } => json!({"op":"remove_id","p":p,"k":k}),
        Op::Subscribe => json!({"op":"subscribe"}),
        Op::CloseRemote { p } => json!({"op":"remote_close","p":p}),
    }
}

fn parse_op(v: &Value) -> Op {
    match v["op"].as_str().unwrap() {
        "add" => Op::Add { p: v["p"].as_u64().unwrap() as usize, inbound: v["inbound"].as_bool().unwrap() },
        "remove" => Op::Remove { p: v["p"].as_u64().unwrap() as usize },
        "remove_id" => Op::RemoveId { p: v["p"].as_u64().unwrap() as usize, k: v["k"].as_u64().unwrap() as usize },
        "remote_close" => Op::CloseRemote { p: v["p"].as_u64().unwrap() as usize },
        _ => Op::Subscribe,
    }
}

fn run_direct(unit: &Value, out: &mut UnitResult) {
    let u = unit.clone();
    let o = sim_exec(crate::seed(), &[], 200, move |sim| direct_world(sim, u).boxed());
    if o.hung {
        out.violation("hang", "direct-drive world did not finish", json!({"unit": unit}));
        out.poisoned = true;
        return;
    }
    for p in &o.panics {
        if p.in_harness() {
            out.machinery_errors.push(format!("harness panic {} at {}", p.message, p.location));
        } else {
            out.violation(crate::simrun::panic_key(p), format!("panic `{}` at {}", p.message, p.location), json!({"unit": unit}));
        }
    }
    let Some(run) = o.run else { return };
    let d = run.obs;
    out.evaluations += d.sequences;
    out.states += d.sequences;
    out.transitions += d.transitions;
    out.traces_validated += d.sequences;
    for (s, n) in d.shapes {
        *out.classes.entry(format!("direct:{s}")).or_default() += n;
    }
    for (k, m, seq) in d.violations {
        out.violation(k, m, json!({"unit": {"kind":"direct","own_rank":unit["own_rank"],"depth":seq.len(),"prefix":seq.iter().map(|s| serde_json::from_str::<Value>(s).unwrap()).collect::<Vec<_>>(),"single":true}}));
    }
    for s in d.samples {
        out.sample(json!({"direct sequence": s}));
    }
}

/// Free-running pass (sampled): a peer's connection ends while one of its requests is inside a
/// non-yielding section of the handler, and the peer reconnects at once. Not expressible on the
/// simulation's single thread (there the section cannot be in progress while other tasks run).
/// The oracle is order-only: events of the peer alternate and snapshot + events = listing.
fn free_running(unit: &Value, out: &mut UnitResult) {
    use anemo::{Network, Request, Response};
    use bytes::Bytes;
    use std::time::Duration;
    out.evaluations += 1;
    out.count("free_running_trials", 1);
    let rt = tokio::runtime::Builder::new_multi_thread().worker_threads(3).enable_all().build().unwrap();
    let verdict: Result<String, (String, String)> = rt.block_on(async move {
        let mk = |key: u8| {
            let svc = tower::service_fn(move |req: Request<Bytes>| async move {
                if req.route() == "/busy" {
                    tokio::task::block_in_place(|| std::thread::sleep(Duration::from_millis(1_500)));
                }
                Ok::<_, std::convert::Infallible>(Response::new(Bytes::new()))
            });
            Network::bind("127.0.0.1:0").private_key([key; 32]).server_name("free").start(svc).map_err(|e| ("setup".to_string(), e.to_string()))
        };
        let a = mk(51)?;
        let b = mk(52)?;
        let (mut eb, snap) = b.subscribe().map_err(|e| ("setup".to_string(), e.to_string()))?;
        if !snap.is_empty() {
            return Err(("setup".into(), "fresh network lists peers".into()));
        }
        a.connect(b.local_addr()).await.map_err(|e| ("setup".to_string(), format!("connect: {e}")))?;
        let (a2, bid) = (a.clone(), b.peer_id());
        tokio::spawn(async move {
            let _ = a2.rpc(bid, Request::new(Bytes::new()).with_route("/busy")).await;
        });
        tokio::time::sleep(Duration::from_millis(300)).await;
        // the connection ends while B's handler is inside its blocking section; A comes back at once
        let _ = a.disconnect(bid);
        tokio::time::sleep(Duration::from_millis(200)).await;
        let re = a.connect(b.local_addr()).await;
        tokio::time::sleep(Duration::from_millis(2_500)).await;
        let mut listed = false;
        let mut log = vec![];
        while let Ok(e) = eb.try_recv() {
            match &e {
                PeerEvent::NewPeer(p) if *p == a.peer_id() => {
                    log.push("New");
                    if listed {
                        return Err(("event-alternation".into(), format!("[free-running, multi-thread runtime] the peer reconnected while a request of its old connection was inside a blocking section of the handler: events at the serving side are {log:?} (two NewPeer in a row)")));
                    }
                    listed = true;
                }
                PeerEvent::LostPeer(p, _) if *p == a.peer_id() => {
                    log.push("Lost");
                    if !listed {
                        return Err(("event-alternation".into(), format!("[free-running, multi-thread runtime] events at the serving side are {log:?} (LostPeer for a peer that is not listed)")));
                    }
                    listed = false;
                }
                _ => {}
            }
        }
        let really = b.peers().contains(&a.peer_id());
        if listed != really {
            return Err(("event-log".into(), format!("[free-running, multi-thread runtime] snapshot + events {log:?} say the peer is {} but peers() says {} (reconnect: {:?})", if listed { "listed" } else { "absent" }, if really { "listed" } else { "absent" }, re.map(|_| ()).map_err(|e| e.to_string()))));
        }
        Ok(format!("free-running reconnect-during-blocking-handler events={}", log.len()))
    });
    drop(rt);
    match verdict {
        Ok(c) => out.class(c),
        Err((k, m)) if k == "setup" => out.machinery_errors.push(format!("free-running unit: {m}")),
        Err((k, m)) => out.violation(k, m, json!({"unit": unit})),
    }
}

/// Thread interleavings: the loom model lives in its own binary (harness/lockx).
pub fn run_threads(unit: &Value, out: &mut UnitResult) {
    let exe = std::env::current_exe().unwrap().parent().unwrap().join("lockx");
    if !exe.exists() || crate::report::verif_root().join("build").join("lockx.failed").exists() {
        out.machinery_errors.push("the loom model (harness/lockx) is not built; see build/cargo-lockx.log".into());
        return;
    }
    let o = std::process::Command::new(&exe).arg(unit["tier"].as_str().unwrap_or("quick")).arg(unit["subset"].as_str().unwrap_or("all")).env_remove("LD_PRELOAD").output();
    match o {
        Ok(o) if o.status.success() => match serde_json::from_slice::<Value>(&o.stdout) {
            Ok(v) => {
                let schedules = v["schedules"].as_u64().unwrap_or(0);
                out.evaluations += schedules;
                out.states += schedules;
                out.transitions += schedules;
                out.traces_validated += schedules;
                out.count("loom_models", v["models"].as_u64().unwrap_or(0));
                out.count("loom_schedules", schedules);
                out.maxi("loom_preemption_bound", v["preemption_bound"].as_u64().unwrap_or(0));
                out.class("threads:explored");
                let mut seen = std::collections::BTreeSet::new();
                for m in v["violations"].as_array().cloned().unwrap_or_default() {
                    let m = m.as_str().unwrap_or("").to_string();
                    if seen.insert(m.clone()) {
                        out.violation("thread-interleaving", format!("loom: {m}"), json!({"unit": unit, "message": m}));
                    }
                }
            }
            Err(e) => out.machinery_errors.push(format!("lockx output unparsable: {e}")),
        },
        Ok(o) => {
            // loom aborts the process when the model itself panics (e.g. a deadlock it detected)
            let err = String::from_utf8_lossy(&o.stderr);
            out.violation("thread-interleaving", format!("the loom model aborted ({:?}): {}", o.status, err.lines().rev().take(6).collect::<Vec<_>>().join(" | ")), json!({"unit": unit}));
        }
        Err(e) => out.machinery_errors.push(format!("cannot run lockx: {e}")),
    }
}

impl Check for C04 {
    fn meta(&self, _tier: Tier) -> CheckMeta {
        CheckMeta {
            property: "C04",
            level: "model_checking",
            rule: "direct: every operation sequence over {add(fresh real connection of peer p in {0,1}, inbound|outbound), remove(p), remove_with_stable_id(p, id of any earlier connection, current or stale), subscribe, the remote end closes p's latest connection} up to the depth, for own identity smallest / middle / greatest, executed on the real registry with real QUIC connections and compared after every step with a reference map + event list (states = sequences, transitions = operations executed); history: every history over 3 real networks of {dial, disconnect, short/long partition, restart, wait} up to the depth with a subscription before every step; distinct = distinct outcome shapes".into(),
            assumptions: vec![
                "a supplementary FREE-RUNNING unit (multi-thread runtime, real sockets: a peer disconnects and reconnects while a request of its old connection is inside a blocking section of the handler; the serving side's events must alternate) samples what the single-thread simulation cannot host; counted under free_running_trials, not part of the exhaustive claim".into(),
                "thread interleavings of the registry are explored separately (loom, run/lockx) — see DESIGN.md".into(),
                "tokio's broadcast channel and quinn's close() are trusted leaf operations".into(),
            ],
            exhaustive: true,
        }
    }

    fn units(&self, tier: Tier) -> Vec<Value> {
        let mut u = vec![];
        let depth = tier.pick(4, 5);
        for own_rank in 0..3 {
            // split by the first two operations
            for a in enabled(&[]) {
                for b in enabled(&[a]) {
                    u.push(json!({"kind":"direct","own_rank":own_rank,"depth":depth,"prefix":[op_json(&a), op_json(&b)]}));
                }
                u.push(json!({"kind":"direct","own_rank":own_rank,"depth":1,"prefix":[op_json(&a)]}));
            }
        }
        u.extend(histories::units(tier, "C04"));
        u.push(json!({"kind":"threads","tier":tier.as_str()}));
        u.insert(0, json!({"kind":"free-running"}));
        u
    }

    fn run_unit(&self, tier: Tier, unit: &Value, out: &mut UnitResult) {
        match unit["kind"].as_str().unwrap() {
            "direct" => run_direct(unit, out),
            "threads" => run_threads(unit, out),
            "free-running" => free_running(unit, out),
            _ => histories::run_unit(tier, unit, out, "C04"),
        }
    }

    fn replay(&self, replay: &Value) -> String {
        let unit = replay["unit"].clone();
        if unit["kind"] == "threads" {
            let mut out = UnitResult::default();
            run_threads(&unit, &mut out);
            return format!("loom model re-run: {} schedules\n{:#?}", out.evaluations, out.violations.iter().map(|v| &v.message).collect::<Vec<_>>());
        }
        if unit["kind"] == "free-running" {
            let mut out = UnitResult::default();
            free_running(&unit, &mut out);
            return format!("free-running unit re-run (thread timing is not reproducible): {:?} {:?}", out.classes, out.violations.iter().map(|v| &v.message).collect::<Vec<_>>());
        }
        if unit["kind"] == "direct" {
            let mut out = UnitResult::default();
            run_direct(&unit, &mut out);
            return format!("direct unit {unit}\nsequences {}\nviolations {:#?}", out.evaluations, out.violations.iter().map(|v| (&v.key, &v.message)).collect::<Vec<_>>());
        }
        histories::replay(replay, "C04")
    }

    fn finish(&self, _tier: Tier, total: &mut UnitResult) -> Map<String, Value> {
        let shapes: Vec<&String> = total.classes.keys().filter(|k| k.starts_with("direct:")).collect();
        let has = |c: char| shapes.iter().any(|s| s[7..].contains(c));
        for (c, what) in [('r', "a rejected add"), ('s', "a stale-id removal"), ('I', "a current-id removal"), ('X', "a disconnect of a registered peer")] {
            if !has(c) {
                total.machinery_errors.push(format!("vacuous: no explored sequence contains {what}"));
            }
        }
        let mut m = Map::new();
        m.insert("direct_outcome_shapes".into(), json!(shapes.len()));
        m
    }
}

pub fn judge_dummy() -> Judged {
    Judged { class: String::new(), violations: vec![], sample: None }
}
