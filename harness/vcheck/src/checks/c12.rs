//! C12 — abandoned RPCs are cancelled remotely and leak nothing.

use crate::report::{CheckMeta, UnitResult};
use crate::simrun::{explore_sim, sim_exec, Judged};
use crate::world::*;
use crate::{Check, Tier};
use futures::FutureExt;
use serde_json::{json, Map, Value};
use std::sync::Arc;

pub struct C12;

const LAT_US: u64 = 2_000;

#[derive(Clone, Debug, Default)]
pub struct Obs {
    pub log: Vec<String>,
    pub violations: Vec<(String, String)>,
    pub class: String,
}

fn cfg(bidi: Option<u64>) -> anemo::Config {
    cfg2(bidi, None)
}

fn cfg2(bidi: Option<u64>, inbound_timeout_ms: Option<u64>) -> anemo::Config {
    let mut c = anemo::Config::default();
    c.inbound_request_timeout_ms = inbound_timeout_ms;
    if let Some(n) = bidi {
        let mut q = anemo::QuicConfig::default();
        q.max_concurrent_bidi_streams = Some(n);
        c.quic = Some(q);
    }
    c
}

/// How an RPC is abandoned.
#[derive(Clone, Debug)]
enum Abandon {
    NeverPolled,
    /// drop after the caller has sent this many datagrams since the call started
    AfterDatagrams(usize),
    /// drop after this many microseconds
    AfterUs(u64),
    /// drop once the remote handler has started (plus a delay in microseconds)
    AfterHandlerStart(u64),
}

fn parse_abandon(v: &Value) -> Abandon {
    match v["how"].as_str().unwrap() {
        "never_polled" => Abandon::NeverPolled,
        "datagrams" => Abandon::AfterDatagrams(v["n"].as_u64().unwrap() as usize),
        "us" => Abandon::AfterUs(v["n"].as_u64().unwrap()),
        "handler_start" => Abandon::AfterHandlerStart(v["n"].as_u64().unwrap()),
        x => panic!("abandon {x}"),
    }
}

/// Run one RPC and abandon it as told. Returns (abandon time, completed before abandon?).
async fn abandoned_rpc(
    sim: &Arc<Sim>,
    from: &anemo::Network,
    from_node: usize,
    to: anemo::PeerId,
    spec: &RpcSpec,
    how: &Abandon,
) -> (u64, Option<Result<(), String>>) {
    let fut = do_rpc(sim, from, to, spec);
    tokio::pin!(fut);
    let done = |o: RpcOutcome| match o.result {
        Ok(ok) => Some(check_response(spec, &ok, to)),
        Err(e) => Some(Err(e)),
    };
    match how {
        Abandon::NeverPolled => (sim.now_us(), None),
        Abandon::AfterDatagrams(n) => {
            if *n == 0 {
                // poll exactly once, then drop
                let r = futures::poll!(fut.as_mut());
                return match r {
                    std::task::Poll::Ready(o) => (sim.now_us(), done(o)),
                    std::task::Poll::Pending => (sim.now_us(), None),
                };
            }
            let trig = sim.fabric.arm_trigger(from_node, *n);
            tokio::select! {
                biased;
                o = &mut fut => (sim.now_us(), done(o)),
                _ = trig => (sim.now_us(), None),
                // the caller may never send that many datagrams: abandon anyway
                _ = tokio::time::sleep(ms(500)) => (sim.now_us(), None),
            }
        }
        Abandon::AfterUs(us) => {
            tokio::select! {
                biased;
                o = &mut fut => (sim.now_us(), done(o)),
                _ = tokio::time::sleep(std::time::Duration::from_micros(*us)) => (sim.now_us(), None),
            }
        }
        Abandon::AfterHandlerStart(delay) => {
            let id = spec.id.clone();
            let svc = sim.svc.clone();
            let wait = async {
                loop {
                    if svc.started(&id) > 0 {
                        break;
                    }
                    tokio::time::sleep(std::time::Duration::from_micros(250)).await;
                }
                tokio::time::sleep(std::time::Duration::from_micros(*delay)).await;
            };
            tokio::select! {
                biased;
                o = &mut fut => (sim.now_us(), done(o)),
                _ = wait => (sim.now_us(), None),
            }
        }
    }
}

/// An early call stays in flight while `between` further calls come and go on the same connection
/// (more than the concurrent-stream limit in total, never more than 3 at once); then the early
/// call is abandoned. Its handler must be dropped promptly, and only its handler.
async fn scenario_late(sim: Arc<Sim>, unit: Value) -> Obs {
    let mut o = Obs::default();
    let between = unit["between"].as_u64().unwrap() as usize;
    let bidi = unit["bidi_limit"].as_u64();
    let a = sim.start(&NodeSpec::new(1).config(cfg2(bidi, None))).unwrap();
    let b = sim.start(&NodeSpec::new(2).config(cfg2(bidi, None))).unwrap();
    let (na, nb) = (sim.node_of(&a), sim.node_of(&b));
    sim.fabric.set_latency_us(na, nb, LAT_US);
    sim.fabric.set_latency_us(nb, na, LAT_US);
    if let Err(e) = a.connect(b.local_addr()).await {
        o.violations.push(("setup".into(), format!("connect: {e}")));
        return o;
    }
    tokio::time::sleep(ms(50)).await;
    let reverse = unit["reverse"].as_bool().unwrap_or(false);
    let (caller, callee) = if reverse { (&b, &a) } else { (&a, &b) };
    // the early call: its handler never finishes
    let early = RpcSpec::new("early").route("/early").header("never", "1").body(pattern_body(1, 30));
    let (sim2, c2, to2, early2) = (sim.clone(), caller.clone(), callee.peer_id(), early.clone());
    let early_task = tokio::spawn(async move { do_rpc(&sim2, &c2, to2, &early2).await });
    tokio::time::sleep(ms(20)).await;
    if sim.svc.started("early") != 1 {
        o.violations.push(("setup".into(), "the early call did not reach its handler".into()));
    }
    // a bystander that is started exactly `limit` calls after the early one and stays in flight
    let limit = bidi.unwrap_or(100) as usize;
    let mut bystander = None;
    for i in 0..between {
        if i + 1 == limit {
            let by = RpcSpec::new("bystander").route("/by").header("gate", "by").body(pattern_body(2, 30));
            let (sim3, c3, to3, by2) = (sim.clone(), caller.clone(), callee.peer_id(), by.clone());
            bystander = Some((by, tokio::spawn(async move { do_rpc(&sim3, &c3, to3, &by2).await })));
            tokio::time::sleep(ms(12)).await;
            continue;
        }
        let spec = RpcSpec::new(&format!("q{i}")).route("/q").body(pattern_body(i as u64, 10));
        match tokio::time::timeout(ms(5_000), do_rpc(&sim, caller, callee.peer_id(), &spec)).await {
            Ok(r) => {
                if let Err(e) = r.result.map_err(|e| e.to_string()).and_then(|ok| check_response(&spec, &ok, callee.peer_id())) {
                    o.violations.push(("later-rpc-fails".into(), format!("call {i} of {between} between the early call and its abandonment failed: {e}")));
                    break;
                }
            }
            Err(_) => {
                o.violations.push(("later-rpc-blocked".into(), format!("call {i} of {between} between the early call and its abandonment did not complete")));
                break;
            }
        }
    }
    // now abandon the early call
    let t_abandon = sim.now_us();
    early_task.abort();
    tokio::time::sleep(ms(40)).await;
    match sim.svc.dropped_at("early") {
        Some(d) if d <= t_abandon + LAT_US + 3_000 => {}
        other => o.violations.push(("handler-not-cancelled".into(), format!("an early call was abandoned at {t_abandon}us after {between} later calls on the connection (stream limit {limit}): its handler was dropped at {other:?}"))),
    }
    if let Some((by, task)) = bystander {
        if sim.svc.dropped_at("bystander").is_some() {
            o.violations.push(("sibling-affected".into(), format!("abandoning the early call dropped the handler of another call in flight (started {limit} calls later)")));
        }
        sim.svc.release("by");
        match tokio::time::timeout(ms(5_000), task).await {
            Ok(Ok(r)) => {
                if let Err(e) = r.result.map_err(|e| e.to_string()).and_then(|ok| check_response(&by, &ok, callee.peer_id())) {
                    o.violations.push(("sibling-affected".into(), format!("the call in flight next to the abandoned one failed: {e}")));
                }
            }
            _ => o.violations.push(("sibling-affected".into(), "the call in flight next to the abandoned one never completed".into())),
        }
    }
    let running = *sim.svc.inflight.lock().unwrap().get(&if reverse { na } else { nb }).unwrap_or(&0);
    if running != 0 {
        o.violations.push(("handler-not-cancelled".into(), format!("{running} handler(s) still executing at the end")));
    }
    o.class = format!("late abandon after {}", if between >= limit { "more calls than the stream limit" } else { "a few calls" });
    o
}

async fn scenario(sim: Arc<Sim>, unit: Value) -> Obs {
    if unit["kind"] == "late" {
        return scenario_late(sim, unit).await;
    }
    let mut o = Obs::default();
    let bidi = unit["bidi_limit"].as_u64();
    // a long deadline may be in force on the serving side: it must not keep abandoned handlers alive
    let deadline = unit["deadline"].as_str().unwrap_or("none").to_string();
    let inbound = (deadline == "inbound-default").then_some(5_000u64);
    // anemo-tower's per-peer in-flight limit (3) may be installed around both services: a slot
    // taken by an abandoned call must come back
    let tower = unit["tower"].as_str().unwrap_or("none").to_string();
    let mk = |key: u8| {
        let spec = NodeSpec::new(key).config(cfg2(bidi, inbound));
        match tower.as_str() {
            "inflight-block" => sim.start_inflight(&spec, 3, true),
            "inflight-error" => sim.start_inflight(&spec, 3, false),
            // a service that exerts backpressure through poll_ready: one request at a time
            "concurrency-1" => sim.start_limited(&spec, 1),
            _ => sim.start(&spec),
        }
        .unwrap()
    };
    let a = mk(1);
    let b = mk(2);
    let (na, nb) = (sim.node_of(&a), sim.node_of(&b));
    sim.fabric.set_latency_us(na, nb, LAT_US);
    sim.fabric.set_latency_us(nb, na, LAT_US);
    let (mut ea, _) = a.subscribe().unwrap();
    let (mut eb, _) = b.subscribe().unwrap();
    if let Err(e) = a.connect(b.local_addr()).await {
        o.violations.push(("setup".into(), format!("connect: {e}")));
        return o;
    }
    tokio::time::sleep(ms(50)).await;
    let _ = drain_events(&mut ea);
    let _ = drain_events(&mut eb);
    // which side makes the abandoned calls
    let reverse = unit["reverse"].as_bool().unwrap_or(false);
    let (caller, caller_node, callee, callee_node) = if reverse { (&b, nb, &a, na) } else { (&a, na, &b, nb) };
    let _ = callee_node;

    // a sibling RPC that is never abandoned, in flight across the whole history
    let sib = RpcSpec::new("sib").route("/sib").header("gate", "sib").body(pattern_body(5, 300));
    let (sim2, c2, to2, sib2) = (sim.clone(), caller.clone(), callee.peer_id(), sib.clone());
    let sib_task = tokio::spawn(async move { do_rpc(&sim2, &c2, to2, &sib2).await });
    tokio::time::sleep(ms(20)).await;

    let body_len = unit["body_len"].as_u64().unwrap_or(0) as usize;
    let handler = unit["handler"].as_str().unwrap_or("never").to_string();
    let calls: Vec<Abandon> = unit["abandons"].as_array().unwrap().iter().map(parse_abandon).collect();
    sim.fabric.set_fate_window(0, unit["fate_budget"].as_u64().unwrap_or(0) as usize);
    let mut abandoned = vec![];
    if let Some(order) = unit["overlap_order"].as_array() {
        // all calls are in flight at once (more than the stream limit: some hold a stream, one
        // waits for stream credit, the rest wait behind it), then they are given up in the
        // order of the unit, 1 ms apart
        let n = order.len();
        let mut tasks = vec![];
        for i in 0..n {
            let id = format!("x{i}");
            let spec = RpcSpec::new(&id).route("/x").body(pattern_body(i as u64, body_len)).header("never", "1");
            let (sim2, c2, to2) = (sim.clone(), caller.clone(), callee.peer_id());
            tasks.push(Some(tokio::spawn(async move { do_rpc(&sim2, &c2, to2, &spec).await })));
            tokio::time::sleep(std::time::Duration::from_micros(200)).await;
        }
        tokio::time::sleep(ms(20)).await;
        for k in order {
            let k = k.as_u64().unwrap() as usize;
            let t = tasks[k].take().unwrap();
            t.abort();
            let _ = t.await;
            o.log.push(format!("call x{k} given up at {}us", sim.now_us()));
            abandoned.push((format!("x{k}"), sim.now_us(), false));
            tokio::time::sleep(ms(1)).await;
        }
    }
    for (i, how) in calls.iter().enumerate() {
        if unit["overlap_order"].is_array() {
            break;
        }
        let id = format!("x{i}");
        let mut spec = RpcSpec::new(&id).route("/x").body(pattern_body(i as u64, body_len));
        if let Some(n) = unit["resp_len"].as_u64() {
            // a response of several flights: the call can be abandoned while it is arriving
            spec = spec.header("resp-len", format!("{n}"));
        }
        if deadline == "header" {
            spec = spec.header("timeout", "5000000000");
        }
        match handler.as_str() {
            "never" => spec = spec.header("never", "1"),
            "sleep" => spec = spec.header("sleep-ms", "10"),
            _ => {}
        }
        let (t_abandon, finished) = abandoned_rpc(&sim, caller, caller_node, callee.peer_id(), &spec, how).await;
        o.log.push(format!("call {id} {how:?}: abandoned at {t_abandon}us finished_before={:?}", finished.as_ref().map(|r| r.is_ok())));
        if let Some(Err(e)) = &finished {
            // it completed (before we could abandon it) but wrongly
            if handler != "never" {
                o.violations.push(("wrong-response".into(), format!("call {id} finished before being abandoned, with: {e}")));
            }
        }
        abandoned.push((id, t_abandon, finished.is_some()));
        if unit["spacing_us"].as_u64().unwrap_or(0) > 0 {
            tokio::time::sleep(std::time::Duration::from_micros(unit["spacing_us"].as_u64().unwrap())).await;
        }
    }
    sim.fabric.set_fate_budget(0);
    let devs = sim.chooser.lock().unwrap().choices().iter().filter(|c| **c != 0).count();
    // give cancellations time to propagate: one way latency + slack (more if a fault was injected)
    let settle_ms = if devs == 0 { 30 } else { 4_000 };
    tokio::time::sleep(ms(settle_ms)).await;

    // 1. every abandoned call whose handler started must have had it dropped promptly
    let slack = if devs == 0 { 2_000 } else { 3_500_000 };
    let mut started = 0;
    for (id, t_abandon, finished) in &abandoned {
        if *finished {
            continue;
        }
        let starts = sim.svc.started(id);
        if starts > 1 {
            o.violations.push(("handler-ran-twice".into(), format!("abandoned call {id} reached a handler {starts} times")));
        }
        if let Some(start) = sim.svc.start_at(id) {
            started += 1;
            let deadline = (*t_abandon + LAT_US).max(start) + slack;
            let completed = sim.svc.completed(id);
            match sim.svc.dropped_at(id) {
                Some(d) if d <= deadline => {}
                Some(d) => o.violations.push(("handler-not-cancelled".into(), format!("call {id} abandoned at {t_abandon}us: its handler (started {start}us) was dropped only at {d}us (deadline {deadline}us)"))),
                None if completed && handler != "never" => {
                    // ran to completion: only acceptable if it finished before the cancellation could arrive
                    let done_at = sim.svc.events.lock().unwrap().iter().find_map(|e| match e { SvcEvent::Complete { id: i, t_us, .. } if i == id => Some(*t_us), _ => None }).unwrap_or(0);
                    if done_at > deadline {
                        o.violations.push(("handler-not-cancelled".into(), format!("call {id} abandoned at {t_abandon}us: its handler ran to completion at {done_at}us (cancellation deadline {deadline}us)")));
                    }
                }
                None => o.violations.push(("handler-not-cancelled".into(), format!("call {id} abandoned at {t_abandon}us: its handler (started {start}us) was still running at {}us", sim.now_us()))),
            }
        }
    }
    // (with a one-at-a-time service the sibling occupies it: it is released first, and nothing
    // that was abandoned while waiting for the service may be served afterwards)
    let mut sib_task = Some(sib_task);
    if tower == "concurrency-1" {
        sim.svc.release("sib");
        match tokio::time::timeout(ms(10_000), sib_task.take().unwrap()).await {
            Err(_) => o.violations.push(("sibling-affected".into(), "the sibling RPC never completed".into())),
            Ok(r) => {
                if let Err(e) = r.unwrap().result {
                    o.violations.push(("sibling-affected".into(), format!("the sibling RPC failed: {e}")));
                }
            }
        }
        tokio::time::sleep(ms(50)).await;
        for (id, t_abandon, finished) in &abandoned {
            if !*finished {
                if let Some(start) = sim.svc.start_at(id) {
                    if start > *t_abandon + LAT_US + slack {
                        o.violations.push(("abandoned-request-served".into(), format!("call {id} was abandoned at {t_abandon}us while it waited for the service; its handler was started at {start}us all the same")));
                    }
                }
            }
        }
    }
    // 2. a fresh RPC right now must go through within 2 RTT (no stream credit leaked)
    let fresh = RpcSpec::new("fresh").route("/fresh").body(pattern_body(8, 40));
    let t0 = sim.now_us();
    match tokio::time::timeout(ms(10_000), do_rpc(&sim, caller, callee.peer_id(), &fresh)).await {
        Err(_) => o.violations.push(("later-rpc-blocked".into(), format!("a fresh RPC after {} abandoned ones did not complete within 10 s", abandoned.len()))),
        Ok(r) => match r.result {
            Err(e) => o.violations.push(("later-rpc-fails".into(), format!("a fresh RPC after {} abandoned ones failed: {e}", abandoned.len()))),
            Ok(ok) => {
                if let Err(e) = check_response(&fresh, &ok, callee.peer_id()) {
                    o.violations.push(("wrong-response".into(), e));
                }
                let took = sim.now_us() - t0;
                if devs == 0 && took > 4 * LAT_US + 2_000 {
                    o.violations.push(("later-rpc-blocked".into(), format!("a fresh RPC after {} abandoned ones took {took}us (2 RTT = {}us)", abandoned.len(), 4 * LAT_US)));
                }
            }
        },
    }
    // 3. the sibling is unaffected
    sim.svc.release("sib");
    if let Some(sib_task) = sib_task.take() {
    match tokio::time::timeout(ms(10_000), sib_task).await {
        Err(_) => o.violations.push(("sibling-affected".into(), "the sibling RPC never completed".into())),
        Ok(r) => match r.unwrap().result {
            Err(e) => o.violations.push(("sibling-affected".into(), format!("the sibling RPC failed: {e}"))),
            Ok(ok) => {
                if let Err(e) = check_response(&sib, &ok, callee.peer_id()) {
                    o.violations.push(("sibling-affected".into(), e));
                }
            }
        },
    }
    }
    tokio::time::sleep(ms(100)).await;
    // 4. nothing left running on the serving side, connection undisturbed
    let running = *sim.svc.inflight.lock().unwrap().get(&if reverse { na } else { nb }).unwrap_or(&0);
    if running != 0 {
        o.violations.push(("handler-not-cancelled".into(), format!("{running} handler(s) still executing at the end")));
    }
    let evs: Vec<String> = drain_events(&mut ea).into_iter().chain(drain_events(&mut eb)).map(|e| event_str(&sim, &e)).collect();
    if !evs.is_empty() || a.peers().len() != 1 || b.peers().len() != 1 {
        o.violations.push(("connection-disturbed".into(), format!("peer events {evs:?}, a lists {} b lists {}", a.peers().len(), b.peers().len())));
    }
    o.class = format!("started={} of {} finished_early={}", started.min(3), abandoned.len().min(3), abandoned.iter().filter(|x| x.2).count().min(2));
    o
}

fn judge(o: &Obs) -> Judged {
    Judged { class: o.class.clone(), violations: o.violations.clone(), sample: Some(json!(o.log.iter().take(6).collect::<Vec<_>>())) }
}

impl Check for C12 {
    fn meta(&self, _tier: Tier) -> CheckMeta {
        CheckMeta {
            property: "C12",
            level: "fault_enumeration",
            rule: "abandon point enumeration: the caller's future is dropped never-polled, after its first poll, after every n-th datagram it sends (small request and a 200 KiB multi-flight request), at every 500 us instant up to completion, and at offsets after the remote handler started; handler instant / 10 ms / never; both call directions; plus histories of 3 x limit abandoned calls with max_concurrent_bidi_streams in {2,4} and 300 with the default 100; the histories also with anemo-tower's per-peer in-flight limit (3, Block and ReturnError) around the services, and with a one-request-at-a-time service (poll_ready backpressure) occupied by the sibling so that the abandoned calls wait for the service; each with a never-abandoned sibling RPC in flight and a fresh RPC afterwards; plus (stream limit + 3) calls in flight at once (some served, one waiting for stream credit, the rest behind it) given up in every order (limit 2: all 120 orders; 3: all 720 in the thorough tier; 4: a spread of orders); plus an early call abandoned only after 3 - 230 further calls came and went on its connection (fewer / more than the stream limit), next to a call started exactly one limit later; datagram fates within the deviation bound; distinct = distinct (handlers started, calls finished before the abandon)".into(),
            assumptions: vec!["prompt = one-way latency + 2 ms of virtual time without injected faults; with an injected fault the cancellation may need a retransmission (3.5 s allowed)".into()],
            exhaustive: true,
        }
    }

    fn units(&self, tier: Tier) -> Vec<Value> {
        let mut u = vec![];
        let ab = |how: &str, n: u64| json!({"how":how,"n":n});
        for reverse in [false, true] {
            for handler in ["never", "sleep", "instant"] {
                // small request: every datagram count and a time grid
                let mut points = vec![json!({"how":"never_polled","n":0})];
                for n in 0..=6 {
                    points.push(ab("datagrams", n));
                }
                for t in (0..=tier.pick(12_000, 24_000)).step_by(tier.pick(500, 250)) {
                    points.push(ab("us", t));
                }
                for d in [0u64, 500, 3_000] {
                    points.push(ab("handler_start", d));
                }
                for p in points {
                    let dev = p["how"] == "datagrams" || p["how"] == "handler_start";
                    for deadline in ["none", "inbound-default", "header"] {
                        let bound = if deadline == "none" { if dev { 2 } else { 1 } } else { tier.pick(0, 1) };
                        u.push(json!({"kind":"point","reverse":reverse,"handler":handler,"body_len":20,"abandons":[p.clone()],"deadline":deadline,"bound":bound,"fate_budget":12}));
                    }
                }
            }
            // small request, 200 KiB response, instant handler: abandon while the response arrives
            // (the caller's datagrams are then acknowledgements)
            for n in (2..=tier.pick(40, 90)).step_by(tier.pick(2, 1)) {
                u.push(json!({"kind":"point","reverse":reverse,"handler":"instant","body_len":20,"resp_len":200*1024,"abandons":[ab("datagrams", n)],"bound":0,"fate_budget":0}));
            }
            // 200 KiB request: several flights; abandon after every n-th datagram
            let max_n = tier.pick(120, 230);
            let step = tier.pick(2, 1);
            for n in (0..=max_n).step_by(step) {
                u.push(json!({"kind":"point","reverse":reverse,"handler":"never","body_len":200*1024,"abandons":[ab("datagrams", n)],"bound":0,"fate_budget":0}));
            }
            if tier == Tier::Thorough {
                for n in (0..=230).step_by(10) {
                    u.push(json!({"kind":"point","reverse":reverse,"handler":"never","body_len":200*1024,"abandons":[ab("datagrams", n)],"bound":1,"fate_budget":40}));
                }
            }
        }
        // an early call abandoned late: after fewer / more further calls than the stream limit
        for reverse in [false, true] {
            for (limit, between) in [(Some(4u64), 3usize), (Some(4), 6), (Some(4), 13), (None, 5), (None, 130), (None, 230)] {
                if tier == Tier::Quick && reverse && between > 13 {
                    continue;
                }
                u.push(json!({"kind":"late","reverse":reverse,"bidi_limit":limit,"between":between,"bound":0,"fate_budget":0}));
            }
        }
        // histories
        for (limit, m) in [(Some(2u64), 6usize), (Some(4), 12), (None, 300)] {
            for pattern in 0..3 {
                let menu = [ab("datagrams", 0), ab("datagrams", 1), ab("handler_start", 0), ab("us", 1_000), ab("datagrams", 2)];
                let abandons: Vec<Value> = (0..m).map(|i| match pattern { 0 => menu[i % 5].clone(), 1 => menu[2].clone(), _ => menu[(i * 3 + 1) % 5].clone() }).collect();
                for reverse in [false, true] {
                    if limit.is_none() && (reverse || (pattern != 0 && tier == Tier::Quick)) {
                        continue;
                    }
                    u.push(json!({"kind":"history","reverse":reverse,"bidi_limit":limit,"handler":"never","body_len":64,"abandons":abandons,"spacing_us": if pattern == 2 { 0 } else { 300 },"bound": if limit.is_some() { tier.pick(0, 1) } else { 0 },"fate_budget":30}));
                    // the same histories with a per-peer in-flight limit of 3 around the services
                    // (spaced, so that at most one abandoned call holds a slot besides the sibling)
                    if limit != Some(2) && pattern != 2 && !(limit.is_none() && tier == Tier::Quick) {
                        for tower in ["inflight-block", "inflight-error", "concurrency-1"] {
                            // behind an occupied one-at-a-time service no handler starts: abandon
                            // after a delay instead of after the handler's start
                            let abandons: Vec<Value> = abandons.iter().map(|a| if tower == "concurrency-1" && a["how"] == "handler_start" { ab("us", 3_000) } else { a.clone() }).collect();
                            u.push(json!({"kind":"history","reverse":reverse,"bidi_limit":limit,"handler":"never","body_len":64,"abandons":abandons,"spacing_us":30_000,"bound":0,"fate_budget":0,"tower":tower}));
                        }
                    }
                }
            }
        }
        // overlapping calls (stream limit + 3 at once) given up in every order
        for (limit, k) in [(2u64, 5usize), (3, 6), (4, 7)] {
            let perms = crate::explore::permutations(k);
            for (pi, p) in perms.iter().enumerate() {
                let keep = match (tier, k) {
                    (_, 5) => true,
                    (Tier::Thorough, 6) => true,
                    // a spread of orders incl. forward, reverse
                    _ => pi % 97 == 0 || pi + 1 == perms.len(),
                };
                if !keep {
                    continue;
                }
                for reverse in [false, true] {
                    u.push(json!({"kind":"history","reverse":reverse,"bidi_limit":limit,"handler":"never","body_len":64,"abandons":[],"overlap_order":p,"bound":0,"fate_budget":0}));
                }
            }
        }
        u
    }

    fn run_unit(&self, _tier: Tier, unit: &Value, out: &mut UnitResult) {
        let bound = unit["bound"].as_u64().unwrap() as usize;
        let u = unit.clone();
        explore_sim(out, crate::seed(), unit, LAT_US, bound, 20_000, true, move |sim| scenario(sim, u.clone()).boxed(), |o: &Obs, _p, _c| judge(o));
    }

    fn replay(&self, replay: &Value) -> String {
        let unit = replay["unit"].clone();
        let choices: Vec<u32> = replay["choices"].as_array().map(|a| a.iter().map(|x| x.as_u64().unwrap() as u32).collect()).unwrap_or_default();
        let seed = replay["seed"].as_u64().unwrap_or(1);
        let u = unit.clone();
        let o = sim_exec(seed, &choices, LAT_US, move |sim| scenario(sim, u).boxed());
        match o.run {
            Some(r) => format!("unit {unit}\nchoices {choices:?}\n{}\nviolations {:?}\npanics {:?}", r.obs.log.join("\n"), r.obs.violations, o.panics),
            None => format!("execution hung={} panics={:?}", o.hung, o.panics),
        }
    }

    fn finish(&self, _tier: Tier, total: &mut UnitResult) -> Map<String, Value> {
        let any_started = total.classes.keys().any(|k| k.starts_with("started=1") || k.starts_with("started=2") || k.starts_with("started=3"));
        let any_not = total.classes.keys().any(|k| k.starts_with("started=0"));
        if !any_started || !any_not {
            total.machinery_errors.push("vacuous: abandon points must cover both 'handler had started' and 'handler never started'".into());
        }
        Map::new()
    }
}
