//! C05, pair part — the two registries of a mutually dialing pair, driven event by event.
//!
//! Two bare endpoints A and B (no connection manager) make two real connections, c1 dialed by A
//! and c2 dialed by B. The connection manager's part is replaced by the explorer, which fires,
//! in EVERY order, the events the manager would fire:
//!   add(X, k)   X's handshake of connection k has completed: `ActivePeers::add` at X
//!   exit(X, k)  X's handler of connection k has noticed that the connection is closed and
//!               unregisters it: `remove_with_stable_id` (only for ends that were registered)
//!   settle      close frames in flight arrive (virtual time passes)
//! until nothing is enabled. In the quiescent end state both registries must hold the two ends of
//! the same, open connection — the one dialed by the greater identity — and each side's events
//! must be an exact change log.

use crate::report::UnitResult;
use crate::simrun::sim_exec;
use crate::world::*;
use anemo::types::{DisconnectReason, PeerEvent};
use anemo::verif::{VActivePeers, VConnection, VEndpoint};
use anemo::PeerId;
use futures::FutureExt;
use serde_json::{json, Value};
use std::collections::BTreeMap;
use std::sync::Arc;
use std::time::Duration;
use tokio::sync::broadcast;

#[derive(Clone, Copy, Debug, PartialEq, Eq, PartialOrd, Ord)]
pub enum Ev {
    Add { side: usize, k: usize },
    Exit { side: usize, k: usize },
    Settle,
}

fn ev_str(e: &Ev) -> String {
    let s = |x: usize| ["A", "B"][x];
    match e {
        Ev::Add { side, k } => format!("add({},c{})", s(*side), k + 1),
        Ev::Exit { side, k } => format!("exit({},c{})", s(*side), k + 1),
        Ev::Settle => "settle".into(),
    }
}

fn ev_json(e: &Ev) -> Value {
    match e {
        Ev::Add { side, k } => json!(["add", side, k]),
        Ev::Exit { side, k } => json!(["exit", side, k]),
        Ev::Settle => json!(["settle"]),
    }
}

fn parse_ev(v: &Value) -> Ev {
    let a = v.as_array().unwrap();
    match a[0].as_str().unwrap() {
        "add" => Ev::Add { side: a[1].as_u64().unwrap() as usize, k: a[2].as_u64().unwrap() as usize },
        "exit" => Ev::Exit { side: a[1].as_u64().unwrap() as usize, k: a[2].as_u64().unwrap() as usize },
        _ => Ev::Settle,
    }
}

fn enabled_events(ends: &[[VConnection; 2]; 2], added: &BTreeMap<(usize, usize), bool>, exited: &[(usize, usize)]) -> Vec<Ev> {
    let closed = |s: usize, k: usize| ends[s][k].close_reason().is_some();
    let mut enabled = vec![];
    for side in 0..2 {
        for k in 0..2 {
            if !added.contains_key(&(side, k)) {
                enabled.push(Ev::Add { side, k });
            }
        }
    }
    for side in 0..2 {
        for k in 0..2 {
            if added.get(&(side, k)) == Some(&true) && !exited.contains(&(side, k)) && closed(side, k) {
                enabled.push(Ev::Exit { side, k });
            }
        }
    }
    if (0..2).any(|k| closed(0, k) != closed(1, k)) {
        enabled.push(Ev::Settle);
    }
    enabled
}

struct Side {
    id: PeerId,
    reg: VActivePeers,
    rx: broadcast::Receiver<PeerEvent>,
    /// replica maintained from the events: is the other peer listed?
    replica: bool,
    events: Vec<String>,
}

struct PathEnd {
    enabled: Vec<Ev>,
    /// canonical description of the state reached (for counting distinct states)
    state: String,
    /// Some(class) when quiescent and the final oracle passed
    final_class: Option<String>,
}

type Fail = (String, String);

/// `gap_after`: after that many events the thread sleeps 1.2 s of WALL-CLOCK time (the simulation's
/// clock is virtual; anything in the subject that reads the wall clock sees connections age);
/// `drain`: after the listed events, keep firing the first enabled event until quiescence.
async fn run_path(a: &VEndpoint, b: &VEndpoint, path: &[Ev], gap_after: Option<usize>, drain: bool) -> Result<PathEnd, Fail> {
    let eps = [a, b];
    // c1: A dials B; c2: B dials A. ends[side][k]
    let (c1a, c1b) = tokio::join!(a.connect(b.local_addr(), None), b.accept());
    let (c2b, c2a) = tokio::join!(b.connect(a.local_addr(), None), a.accept());
    let setup = |m: String| ("setup".to_string(), m);
    let c1a = c1a.map_err(|e| setup(format!("c1 connect: {e}")))?;
    let c1b = c1b.ok_or_else(|| setup("c1 accept: none".into()))?.map_err(|e| setup(format!("c1 accept: {e}")))?;
    let c2b = c2b.map_err(|e| setup(format!("c2 connect: {e}")))?;
    let c2a = c2a.ok_or_else(|| setup("c2 accept: none".into()))?.map_err(|e| setup(format!("c2 accept: {e}")))?;
    let ends: [[VConnection; 2]; 2] = [[c1a, c2a], [c1b, c2b]];
    let mut sides: Vec<Side> = eps
        .iter()
        .map(|e| {
            let reg = VActivePeers::new(64);
            let (rx, snap) = reg.subscribe();
            assert!(snap.is_empty());
            Side { id: e.peer_id(), reg, rx, replica: false, events: vec![] }
        })
        .collect();
    let mut path: Vec<Ev> = path.to_vec();
    let gap_note = match gap_after {
        Some(0) => " (1.1 s of wall-clock time pass between the registrations)".to_string(),
        Some(g) => format!(" (1.1 s of wall-clock time pass before event {g})"),
        None => String::new(),
    };
    let ctx = |upto: usize, path: &Vec<Ev>| format!("[{} < {}] events {:?}{gap_note}", if sides_lt(eps) { "A" } else { "B" }, if sides_lt(eps) { "B" } else { "A" }, path[..upto.min(path.len())].iter().map(ev_str).collect::<Vec<_>>());
    fn sides_lt(eps: [&VEndpoint; 2]) -> bool {
        eps[0].peer_id().0 < eps[1].peer_id().0
    }
    let mut added: BTreeMap<(usize, usize), bool> = BTreeMap::new();
    let mut exited: Vec<(usize, usize)> = vec![];
    let mut i = 0usize;
    while i < path.len() {
        let ev = path[i];
        // Some(0) = before each of the events 1, 2 and 3
        if gap_after == Some(i) || (gap_after == Some(0) && (1..=3).contains(&i)) {
            std::thread::sleep(Duration::from_millis(1_100));
        }
        match ev {
            Ev::Add { side, k } => {
                let ok = sides[side].reg.add(&sides[side].id, &ends[side][k]);
                added.insert((side, k), ok);
            }
            Ev::Exit { side, k } => {
                let reason = ends[side][k].close_reason().unwrap_or(DisconnectReason::LocallyClosed);
                let other = sides[1 - side].id;
                sides[side].reg.remove_with_stable_id(other, ends[side][k].stable_id(), reason);
                exited.push((side, k));
            }
            Ev::Settle => {
                tokio::time::sleep(Duration::from_millis(200)).await;
            }
        }
        // per-step invariants: at most the other peer listed; events are a change log
        for s in 0..2 {
            let other = sides[1 - s].id;
            loop {
                match sides[s].rx.try_recv() {
                    Ok(PeerEvent::NewPeer(p)) => {
                        sides[s].events.push("New".into());
                        if p != other || sides[s].replica {
                            return Err(("event-log".into(), format!("{}: side {} got NewPeer({p:?}) while its change log already lists the peer (or for a stranger)", ctx(i + 1, &path), ["A", "B"][s])));
                        }
                        sides[s].replica = true;
                    }
                    Ok(PeerEvent::LostPeer(p, _)) => {
                        sides[s].events.push("Lost".into());
                        if p != other || !sides[s].replica {
                            return Err(("event-log".into(), format!("{}: side {} got LostPeer({p:?}) for a peer its change log does not list", ctx(i + 1, &path), ["A", "B"][s])));
                        }
                        sides[s].replica = false;
                    }
                    Err(broadcast::error::TryRecvError::Empty) => break,
                    Err(e) => return Err(("event-log".into(), format!("{}: subscription of side {s} failed: {e}", ctx(i + 1, &path)))),
                }
            }
            let listed = sides[s].reg.peers();
            if listed.len() > 1 || listed.iter().any(|p| *p != other) {
                return Err(("listing".into(), format!("{}: side {} lists {listed:?}", ctx(i + 1, &path), ["A", "B"][s])));
            }
            if (listed.len() == 1) != sides[s].replica {
                return Err(("event-log".into(), format!("{}: side {} lists {} peer(s) but snapshot + events give {}", ctx(i + 1, &path), ["A", "B"][s], listed.len(), sides[s].replica as u8)));
            }
        }
        i += 1;
        if drain && i == path.len() && path.len() < 16 {
            if let Some(next) = enabled_events(&ends, &added, &exited).first() {
                path.push(*next);
            }
        }
    }
    // what is enabled now
    let closed = |s: usize, k: usize| ends[s][k].close_reason().is_some();
    let enabled = enabled_events(&ends, &added, &exited);
    if matches!(path.last(), Some(Ev::Settle)) && (0..2).any(|k| closed(0, k) != closed(1, k)) {
        return Err(("setup".into(), format!("{}: a close did not reach the other end within the settle time", ctx(path.len(), &path))));
    }
    let held = |s: usize| -> Option<usize> {
        let c = sides[s].reg.get(&sides[1 - s].id)?;
        (0..2).find(|k| ends[s][*k].stable_id() == c.stable_id())
    };
    let state = format!(
        "added {:?} exited {:?} held {:?}/{:?} closed {:?}",
        added,
        {
            let mut e = exited.clone();
            e.sort();
            e
        },
        held(0),
        held(1),
        [[closed(0, 0), closed(0, 1)], [closed(1, 0), closed(1, 1)]]
    );
    let mut final_class = None;
    if enabled.is_empty() {
        // quiescent: the convergence oracle
        let c = ctx(path.len(), &path);
        let (ha, hb) = (held(0), held(1));
        let expected = if sides[0].id.0 > sides[1].id.0 { 0 } else { 1 }; // c1 is dialed by A, c2 by B
        match (ha, hb) {
            (Some(x), Some(y)) if x == y => {
                if closed(0, x) || closed(1, x) {
                    return Err(("not-converged".into(), format!("{c}: both sides keep c{} but it is closed", x + 1)));
                }
                if x != expected {
                    return Err(("wrong-survivor".into(), format!("{c}: the surviving connection is c{} (dialed by the smaller identity); the one dialed by the greater identity must survive whatever the order", x + 1)));
                }
                let loser = 1 - x;
                if !closed(0, loser) || !closed(1, loser) {
                    return Err(("loser-not-closed".into(), format!("{c}: connection c{} lost the tie-break but is still open at one end", loser + 1)));
                }
            }
            _ => {
                return Err(("not-converged".into(), format!("{c}: once quiet, A keeps {:?} and B keeps {:?} (index of the connection; None = peer not listed): the two sides did not settle on one shared connection", ha, hb)));
            }
        }
        final_class = Some(format!("pair converged A:{} B:{}", sides[0].events.join(","), sides[1].events.join(",")));
    }
    Ok(PathEnd { enabled, state, final_class })
}

#[derive(Default)]
struct PairObs {
    nodes: u64,
    transitions: u64,
    complete_paths: u64,
    max_len: usize,
    states: std::collections::BTreeSet<String>,
    classes: BTreeMap<String, u64>,
    violations: Vec<(String, String, Vec<Ev>)>,
    machinery: Vec<String>,
    sample: Option<Vec<String>>,
}

async fn pair_world(_sim: Arc<Sim>, unit: Value) -> PairObs {
    let a_greater = unit["a_greater"].as_bool().unwrap();
    let (small, big) = super::c05::ordered_keys_for(unit["ids"].as_str().unwrap_or(""));
    let (ka, kb) = if a_greater { (big, small) } else { (small, big) };
    let cfg = anemo::Config::default();
    let mk = |k: u8| {
        let s = std::net::UdpSocket::bind("127.0.0.1:0").unwrap();
        VEndpoint::new(key_bytes(k), NET_NAME, None, &cfg, s).unwrap()
    };
    let (a, b) = (mk(ka), mk(kb));
    let prefix: Vec<Ev> = unit["prefix"].as_array().unwrap().iter().map(parse_ev).collect();
    let single = unit["single"].as_bool().unwrap_or(false) || unit["gap_after"].is_u64();
    let gap_after = unit["gap_after"].as_u64().map(|g| g as usize);
    let mut obs = PairObs::default();
    let mut stack = vec![prefix];
    while let Some(path) = stack.pop() {
        crate::pool::crumb(|| format!("pair path {:?}", path.iter().map(ev_str).collect::<Vec<_>>()));
        obs.nodes += 1;
        obs.transitions += path.len() as u64;
        obs.max_len = obs.max_len.max(path.len());
        match run_path(&a, &b, &path, gap_after, gap_after.is_some()).await {
            Ok(end) => {
                obs.states.insert(end.state);
                if let Some(c) = end.final_class {
                    obs.complete_paths += 1;
                    *obs.classes.entry(c).or_default() += 1;
                    if obs.sample.is_none() {
                        obs.sample = Some(path.iter().map(ev_str).collect());
                    }
                }
                if path.len() > 16 {
                    obs.machinery.push(format!("pair path longer than 16 events: {:?}", path.iter().map(ev_str).collect::<Vec<_>>()));
                    continue;
                }
                if !single {
                    for e in end.enabled.into_iter().rev() {
                        let mut n = path.clone();
                        n.push(e);
                        stack.push(n);
                    }
                }
            }
            Err((k, m)) if k == "setup" => obs.machinery.push(m),
            Err((k, m)) => {
                if obs.violations.len() < 5 {
                    obs.violations.push((k, m, path.clone()));
                }
            }
        }
    }
    obs
}

pub fn units(thorough: bool) -> Vec<Value> {
    // split by the first two events so that the pool has work for every core
    let mut u = vec![];
    for a_greater in [false, true] {
        for s1 in 0..2usize {
            for k1 in 0..2usize {
                for s2 in 0..2usize {
                    for k2 in 0..2usize {
                        if (s1, k1) != (s2, k2) {
                            u.push(json!({"kind":"pair","a_greater":a_greater,"prefix":[["add",s1,k1],["add",s2,k2]]}));
                        }
                    }
                }
                // first add followed by settle / exit cannot happen: nothing is closed yet
            }
        }
    }
    // every order again for identity pairs whose first differing bytes stand in a particular
    // relation (exactly 0x80 apart, across the sign boundary, far apart, first byte equal): the
    // tie-break rests on a total order of the identities
    for ids in ["d80", "cross", "wide", "eqfirst"] {
        let _ = thorough;
        for a_greater in [false, true] {
            for s1 in 0..2usize {
                for k1 in 0..2usize {
                    for s2 in 0..2usize {
                        for k2 in 0..2usize {
                            if (s1, k1) != (s2, k2) {
                                u.push(json!({"kind":"pair","ids":ids,"a_greater":a_greater,"prefix":[["add",s1,k1],["add",s2,k2]]}));
                            }
                        }
                    }
                }
            }
        }
    }
    // every order of the four registrations again, with wall-clock time passing between them
    // (then drained greedily): connections must not be judged by their age
    let perms = crate::explore::permutations(4);
    for a_greater in [false, true] {
        for p in &perms {
            let ends = [(0usize, 0usize), (0, 1), (1, 0), (1, 1)];
            let prefix: Vec<Value> = p.iter().map(|i| json!(["add", ends[*i].0, ends[*i].1])).collect();
            u.push(json!({"kind":"pair","a_greater":a_greater,"prefix":prefix,"gap_after":0}));
        }
    }
    u
}

pub fn run_unit(unit: &Value, out: &mut UnitResult) {
    let u = unit.clone();
    let o = sim_exec(crate::seed(), &[], 200, move |sim| pair_world(sim, u).boxed());
    if o.hung {
        out.violation("hang", "pair world did not finish", json!({"unit": unit}));
        out.poisoned = true;
        return;
    }
    for p in &o.panics {
        if p.in_harness() {
            out.machinery_errors.push(format!("harness panic {} at {}", p.message, p.location));
        } else {
            out.violation(crate::simrun::panic_key(p), format!("panic `{}` at {}", p.message, p.location), json!({"unit": unit}));
        }
    }
    let Some(run) = o.run else { return };
    let d = run.obs;
    out.evaluations += d.nodes;
    out.states += d.states.len() as u64;
    out.transitions += d.transitions;
    out.count("pair_paths_to_quiescence", d.complete_paths);
    out.count("pair_nodes", d.nodes);
    out.maxi("pair_max_events", d.max_len as u64);
    for (c, n) in d.classes {
        *out.classes.entry(c).or_default() += n;
    }
    for m in d.machinery {
        out.machinery_errors.push(m);
    }
    for (k, m, path) in d.violations {
        out.violation(k, m, json!({"unit": {"kind":"pair","ids":unit["ids"],"a_greater":unit["a_greater"],"prefix":path.iter().map(ev_json).collect::<Vec<_>>(),"single":true}}));
    }
    if let Some(s) = d.sample {
        out.sample(json!({"pair path": s}));
    }
}
