//! C01 — peer identity is cryptographically authenticated.
//!
//! verifier layer: the three certificate verifiers, the handshake-signature verifiers and
//!   `peer_id_from_certificate` on constructed, forged and exhaustively mutated certificates,
//!   against a reference built on ring + x509-parser only;
//! system layer: a raw QUIC adversary with lying TLS identities against real networks, as dialer
//!   and as listener (pinned and unpinned), with message contents that mention other identities.

use crate::adversary::{anemo_cert, decode_response, ed25519_pkcs8, encode_request, signing_key, Adversary, Identity};
use crate::certs::{self, CertOpts};
use crate::report::{CheckMeta, UnitResult};
use crate::simrun::{explore_sim, sim_exec, Judged};
use crate::world::*;
use crate::{Check, Tier};
use anemo::verif::crypto as vc;
use anemo::PeerId;
use futures::FutureExt;
use rustls::internal::msgs::codec::{Codec, Reader};
use rustls::pki_types::{CertificateDer, ServerName, UnixTime};
use serde_json::{json, Map, Value};
use std::sync::Arc;

pub struct C01;

const X: u8 = 31; // the identity the adversary would like to pass for (it never has this key)
const Y: u8 = 32; // the adversary's own key
const V: u8 = 33; // the victim network

fn now_unix() -> i64 {
    std::time::SystemTime::now().duration_since(std::time::UNIX_EPOCH).unwrap().as_secs() as i64
}

// ------------------------------------------------------------------------------------------
// verifier layer
// ------------------------------------------------------------------------------------------

fn dss(scheme: u16, sig: &[u8]) -> rustls::DigitallySignedStruct {
    let mut b = scheme.to_be_bytes().to_vec();
    b.extend_from_slice(&(sig.len() as u16).to_be_bytes());
    b.extend_from_slice(sig);
    rustls::DigitallySignedStruct::read(&mut Reader::init(&b)).expect("dss")
}

/// Offer one certificate to every verifier; compare with the reference. `what` labels the input.
fn check_cert(out: &mut UnitResult, what: &str, cert: &[u8], must_accept_as: Option<[u8; 32]>) {
    crate::pool::crumb(|| format!("certificate verifiers on `{what}`"));
    let now = UnixTime::now();
    let r = certs::reference(cert, now_unix());
    let der = CertificateDer::from(cert.to_vec());
    let accepted_names = vec![NET_NAME.to_string()];
    let sn = ServerName::try_from(NET_NAME).unwrap();
    let rp = |detail: &str| json!({"unit": {"kind": "verifier"}, "input": what, "detail": detail});
    let named = r.names.iter().any(|n| n == NET_NAME);
    // what the statement allows to be accepted
    let may_accept = |usage_ok: bool| r.parses && r.ed25519_self_signed && r.in_validity && named && usage_ok;
    let eku_server = r.eku.map(|e| e.0).unwrap_or(true);
    let eku_client = r.eku.map(|e| e.1).unwrap_or(true);
    let run = std::panic::catch_unwind(|| {
        let client = vc::verify_client_cert(&accepted_names, &der, &[], now).is_ok();
        let server = vc::verify_server_cert(&accepted_names, None, &der, &[], &sn, now).is_ok();
        let with_inter = vc::verify_server_cert(&accepted_names, None, &der, &[anemo_cert(X, NET_NAME)], &sn, now).is_ok();
        let pin_x = vc::verify_server_cert(&accepted_names, Some(peer_id_of_key(X)), &der, &[], &sn, now).is_ok();
        let pin_y = vc::verify_server_cert(&accepted_names, Some(peer_id_of_key(Y)), &der, &[], &sn, now).is_ok();
        let pid = vc::peer_id_from_certificate(&der).ok();
        (client, server, with_inter, pin_x, pin_y, pid)
    });
    out.evaluations += 1;
    let (client, server, with_inter, pin_x, pin_y, pid) = match run {
        Ok(x) => x,
        Err(p) => {
            out.violation("verifier-panics", format!("{what}: a verifier panicked: {}", crate::exec::panic_message(&p)), rp("panic"));
            return;
        }
    };
    if client && !may_accept(eku_client) {
        out.violation("client-cert-wrongly-accepted", format!("{what}: verify_client_cert accepted a certificate the reference rejects ({r:?})"), rp("client"));
    }
    if (server || with_inter) && !may_accept(eku_server) {
        out.violation("server-cert-wrongly-accepted", format!("{what}: verify_server_cert accepted a certificate the reference rejects ({r:?})"), rp("server"));
    }
    if server != with_inter {
        out.violation("intermediates-change-verdict", format!("{what}: attaching an unrelated intermediate changed the verdict ({server} vs {with_inter})"), rp("intermediates"));
    }
    for (pin, ok, key) in [("X", pin_x, X), ("Y", pin_y, Y)] {
        if ok && !(may_accept(eku_server) && r.spki_key == Some(peer_id_of_key(key).0)) {
            out.violation("pin-bypassed", format!("{what}: the verifier pinned to {pin} accepted a certificate whose key is {:?}", r.spki_key.map(|k| k[0])), rp("pin"));
        }
    }
    if let Some(p) = pid {
        if r.spki_key != Some(p.0) {
            out.violation("peer-id-not-the-certified-key", format!("{what}: peer_id_from_certificate returned {p:?} but the certificate's Ed25519 subject key is {:?}", r.spki_key), rp("peer_id"));
        }
    }
    if let Some(k) = must_accept_as {
        if !(client && server) || pid.map(|p| p.0) != Some(k) {
            out.violation("honest-cert-rejected", format!("{what}: an honest certificate was not accepted (client {client}, server {server}, id {:?})", pid), rp("honest"));
        }
    }
    out.class(format!("verifier accepted={} parses={}", client || server, r.parses));
}

fn verifier_certs(tier: Tier, out: &mut UnitResult, part: usize, parts: usize) {
    let x = anemo_cert(X, NET_NAME);
    if part == 0 {
        // constructed certificates
        check_cert(out, "honest X", x.as_ref(), Some(peer_id_of_key(X).0));
        check_cert(out, "honest Y", anemo_cert(Y, NET_NAME).as_ref(), Some(peer_id_of_key(Y).0));
        check_cert(out, "X for another network name", anemo_cert(X, "other").as_ref(), None);
        check_cert(out, "X's certificate re-signed with Y's key", certs::resign(&x, Y).as_ref(), None);
        check_cert(out, "Y's certificate re-signed with X's... (Y's key signs a certificate carrying X's key)", certs::resign(&anemo_cert(X, NET_NAME), Y).as_ref(), None);
        check_cert(out, "ECDSA P-256 self-signed", certs::ecdsa_cert(NET_NAME).0.as_ref(), None);
        check_cert(out, "expired", certs::ed25519_cert(Y, NET_NAME, &CertOpts { not_before: Some((2000, 1, 1)), not_after: Some((2001, 1, 1)), eku: None }).as_ref(), None);
        check_cert(out, "not yet valid", certs::ed25519_cert(Y, NET_NAME, &CertOpts { not_before: Some((2999, 1, 1)), not_after: Some((3000, 1, 1)), eku: None }).as_ref(), None);
        check_cert(out, "EKU serverAuth only", certs::ed25519_cert(Y, NET_NAME, &CertOpts { eku: Some(vec!["server"]), ..Default::default() }).as_ref(), None);
        check_cert(out, "EKU clientAuth only", certs::ed25519_cert(Y, NET_NAME, &CertOpts { eku: Some(vec!["client"]), ..Default::default() }).as_ref(), None);
        check_cert(out, "EKU both", certs::ed25519_cert(Y, NET_NAME, &CertOpts { eku: Some(vec!["client", "server"]), ..Default::default() }).as_ref(), None);
        check_cert(out, "empty", &[], None);
        check_cert(out, "two certificates concatenated", &[x.as_ref(), x.as_ref()].concat(), None);
        // every truncation
        for cut in 0..x.len() {
            check_cert(out, &format!("X truncated to {cut} bytes"), &x.as_ref()[..cut], None);
        }
    }
    // every single-byte substitution
    let values: Vec<u8> = (0..=255).collect();
    for off in (0..x.len()).filter(|o| o % parts == part) {
        let orig = x.as_ref()[off];
        let _ = tier;
        for v in values.clone() {
            if v == orig {
                continue;
            }
            let mut m = x.as_ref().to_vec();
            m[off] = v;
            check_cert(out, &format!("X with byte {off} := {v:#04x}"), &m, None);
        }
    }
}

fn verifier_signatures(out: &mut UnitResult) {
    let message = b"                                                                TLS 1.3, server CertificateVerify\0transcript-hash-goes-here";
    let cert_x = anemo_cert(X, NET_NAME);
    let sig_x = certs::ring_key(X).sign(message).as_ref().to_vec();
    let sig_y = certs::ring_key(Y).sign(message).as_ref().to_vec();
    let whichs = [vc::Which::Client, vc::Which::Server, vc::Which::ExpectedServer(peer_id_of_key(X))];
    let rp = |d: String| json!({"unit": {"kind": "signatures"}, "detail": d});
    for which in &whichs {
        // every scheme code with a right and a wrong signature
        for scheme in 0..=u16::MAX {
            for (label, sig, right) in [("right key", &sig_x, true), ("wrong key", &sig_y, false)] {
                out.evaluations += 1;
                let r13 = std::panic::catch_unwind(|| vc::verify_tls13_signature(which, message, &cert_x, &dss(scheme, sig)).is_ok());
                let r12 = std::panic::catch_unwind(|| vc::verify_tls12_signature(which, message, &cert_x, &dss(scheme, sig)).is_ok());
                let expect = right && scheme == 0x0807;
                match (r13, r12) {
                    (Ok(a), Ok(b)) => {
                        if a != expect {
                            out.violation("handshake-signature-wrongly-judged", format!("{which:?} TLS1.3 scheme {scheme:#06x} signature by the {label}: accepted={a}, expected {expect}"), rp(format!("{scheme}")));
                        }
                        if b && !expect {
                            out.violation("handshake-signature-wrongly-judged", format!("{which:?} TLS1.2 scheme {scheme:#06x} signature by the {label}: accepted"), rp(format!("{scheme}")));
                        }
                    }
                    _ => out.violation("verifier-panics", format!("signature verifier panicked on scheme {scheme:#06x}"), rp(format!("{scheme}"))),
                }
                out.class(format!("signature accepted={expect}"));
            }
        }
        // every single-bit flip of a right signature, and of the message
        for bit in 0..(64 * 8) {
            out.evaluations += 1;
            let mut s = sig_x.clone();
            s[bit / 8] ^= 1 << (bit % 8);
            if vc::verify_tls13_signature(which, message, &cert_x, &dss(0x0807, &s)).is_ok() {
                out.violation("handshake-signature-wrongly-judged", format!("{which:?}: a signature with bit {bit} flipped was accepted"), rp(format!("bit {bit}")));
            }
        }
        for byte in 0..message.len() {
            out.evaluations += 1;
            let mut m = message.to_vec();
            m[byte] ^= 0x01;
            if vc::verify_tls13_signature(which, &m, &cert_x, &dss(0x0807, &sig_x)).is_ok() {
                out.violation("handshake-signature-wrongly-judged", format!("{which:?}: the signature was accepted for a different message (byte {byte})"), rp(format!("msg {byte}")));
            }
        }
        // a signature made with Y's key is not accepted for Y-resigned forgery of X either
        let forged = certs::resign(&cert_x, Y);
        if vc::verify_tls13_signature(which, message, &forged, &dss(0x0807, &sig_y)).is_ok() {
            out.violation("handshake-signature-wrongly-judged", format!("{which:?}: Y's signature accepted for a certificate carrying X's key"), rp("forged".into()));
        }
        let schemes = vc::supported_verify_schemes(which);
        if schemes != vec![rustls::SignatureScheme::ED25519] {
            out.violation("signature-schemes-widened", format!("{which:?} advertises {schemes:?}"), rp("schemes".into()));
        }
    }
    if !vc::client_auth_mandatory() {
        out.violation("client-auth-optional", "the listener does not demand a client certificate".to_string(), rp("mandatory".into()));
    }
}

/// The verifiers of ONE endpoint serve every handshake of that endpoint. Two or three handshakes
/// (sessions), each a certificate offer followed by a handshake-signature check, run through the
/// same verifier in EVERY interleaving that keeps each session's own order; every verdict must be
/// what the same call gives on its own — in particular a signature made with Y's key is never
/// accepted for X's certificate, whatever another session offered in between.
fn verifier_sessions(out: &mut UnitResult) {
    let now = UnixTime::now();
    let names = vec![NET_NAME.to_string()];
    let sn = ServerName::try_from(NET_NAME).unwrap();
    let certs_of = [anemo_cert(X, NET_NAME), anemo_cert(Y, NET_NAME)];
    let keys = [X, Y];
    // (certificate owner, signer)
    let kinds: [(usize, usize, &str); 4] = [(0, 0, "honest X"), (1, 1, "honest Y"), (0, 1, "X's certificate, signature by Y"), (1, 0, "Y's certificate, signature by X")];
    let whichs = [vc::Which::Client, vc::Which::Server, vc::Which::ExpectedServer(peer_id_of_key(X))];
    // interleavings of n sessions with two steps each: sequences over session indices in which
    // each index occurs exactly twice
    fn interleavings(n: usize) -> Vec<Vec<usize>> {
        fn rec(left: &mut Vec<usize>, cur: &mut Vec<usize>, acc: &mut Vec<Vec<usize>>) {
            if left.iter().all(|l| *l == 0) {
                acc.push(cur.clone());
                return;
            }
            for i in 0..left.len() {
                if left[i] > 0 {
                    left[i] -= 1;
                    cur.push(i);
                    rec(left, cur, acc);
                    cur.pop();
                    left[i] += 1;
                }
            }
        }
        let mut acc = vec![];
        rec(&mut vec![2; n], &mut vec![], &mut acc);
        acc
    }
    for which in &whichs {
        for n in [2usize, 3] {
            let orders = interleavings(n);
            let combos = 4usize.pow(n as u32);
            for combo in 0..combos {
                let sess: Vec<(usize, usize, &str)> = (0..n).map(|i| kinds[(combo / 4usize.pow(i as u32)) % 4]).collect();
                for order in &orders {
                    let mut step = vec![0usize; n];
                    let mut trace: Vec<String> = vec![];
                    for &si in order {
                        let (co, signer, label) = sess[si];
                        let cert = &certs_of[co];
                        let message = format!("                                                                TLS 1.3, {} CertificateVerify\0transcript of session {si}", if matches!(which, vc::Which::Client) { "client" } else { "server" });
                        out.evaluations += 1;
                        out.transitions += 1;
                        if step[si] == 0 {
                            let got = match which {
                                vc::Which::Client => vc::verify_client_cert(&names, cert, &[], now).is_ok(),
                                vc::Which::Server => vc::verify_server_cert(&names, None, cert, &[], &sn, now).is_ok(),
                                vc::Which::ExpectedServer(p) => vc::verify_server_cert(&names, Some(*p), cert, &[], &sn, now).is_ok(),
                            };
                            let want = match which {
                                vc::Which::ExpectedServer(_) => co == 0,
                                _ => true,
                            };
                            trace.push(format!("s{si}({label}): certificate -> {got}"));
                            if got != want {
                                out.violation("session-verdict-depends-on-others", format!("{which:?}: {trace:?}: the certificate verdict should be {want}"), json!({"unit": {"kind": "sessions"}, "which": format!("{which:?}"), "trace": trace}));
                            }
                        } else {
                            let sig = certs::ring_key(keys[signer]).sign(message.as_bytes()).as_ref().to_vec();
                            let got = vc::verify_tls13_signature(which, message.as_bytes(), cert, &dss(0x0807, &sig)).is_ok();
                            let want = co == signer;
                            trace.push(format!("s{si}({label}): handshake signature -> {got}"));
                            if got != want {
                                out.violation(
                                    if got { "handshake-signature-wrongly-judged" } else { "session-verdict-depends-on-others" },
                                    format!("{which:?}: handshakes interleaved on one endpoint's verifier {trace:?}: the last verdict should be {want} (a handshake signature proves possession of the key in the certificate of ITS OWN session only)"),
                                    json!({"unit": {"kind": "sessions"}, "which": format!("{which:?}"), "trace": trace}),
                                );
                            }
                            out.class(format!("session signature accepted={want}"));
                        }
                        step[si] += 1;
                    }
                    out.states += 1;
                }
            }
        }
    }
}

// ------------------------------------------------------------------------------------------
// system layer
// ------------------------------------------------------------------------------------------

#[derive(Clone, Debug, Default)]
pub struct Obs {
    pub log: Vec<String>,
    pub violations: Vec<(String, String)>,
    pub class: String,
}

/// (identity the adversary presents, the PeerId an honest verifier may attribute to it)
fn identity(kind: &str) -> (Identity, Option<PeerId>) {
    let x_cert = anemo_cert(X, NET_NAME);
    match kind {
        "honest_y" => (Identity::honest(Y, NET_NAME), Some(peer_id_of_key(Y))),
        "replay_x" => (Identity::replayed(X, NET_NAME, Y), None),
        "forged_x_signed_by_y" => (Identity { chain: vec![certs::resign(&x_cert, Y)], signer: Some(signing_key(&ed25519_pkcs8(Y))) }, None),
        "ecdsa" => {
            let (c, k) = certs::ecdsa_cert(NET_NAME);
            (Identity { chain: vec![c], signer: Some(signing_key(&k)) }, None)
        }
        "expired_y" => (Identity { chain: vec![certs::ed25519_cert(Y, NET_NAME, &CertOpts { not_before: Some((2000, 1, 1)), not_after: Some((2001, 1, 1)), eku: None })], signer: Some(signing_key(&ed25519_pkcs8(Y))) }, None),
        "no_cert" => (Identity::none(), None),
        // own valid certificate first, X's public certificate appended: only the first is proven
        "chain_y_then_x" => (Identity { chain: vec![anemo_cert(Y, NET_NAME), x_cert], signer: Some(signing_key(&ed25519_pkcs8(Y))) }, Some(peer_id_of_key(Y))),
        "chain_x_then_y" => (Identity { chain: vec![x_cert, anemo_cert(Y, NET_NAME)], signer: Some(signing_key(&ed25519_pkcs8(Y))) }, None),
        "wrong_name_y" => (Identity::honest(Y, "other-network"), None),
        k => panic!("identity {k}"),
    }
}

const IDENTITIES: [&str; 9] = ["honest_y", "replay_x", "forged_x_signed_by_y", "ecdsa", "expired_y", "no_cert", "chain_y_then_x", "chain_x_then_y", "wrong_name_y"];

/// No adversary at all: the victim gets connected with two honest networks X and W one after
/// the other (every direction combination). Whatever either side keeps from the first handshake
/// (tickets, caches, memos) must not colour the identity of the second connection.
async fn scenario_two_honest(sim: Arc<Sim>, unit: Value) -> Obs {
    let mut o = Obs::default();
    macro_rules! viol {
        ($k:expr, $($arg:tt)*) => { o.violations.push(($k.to_string(), format!($($arg)*))) };
    }
    let order = unit["order"].as_str().unwrap();
    let ctx = format!("[two honest networks, {order}]");
    let v = sim.start(&NodeSpec::new(V)).unwrap();
    let x = sim.start(&NodeSpec::new(X)).unwrap();
    let w = sim.start(&NodeSpec::new(Y)).unwrap();
    let (vid, xid, wid) = (v.peer_id(), x.peer_id(), w.peer_id());
    for (id, l) in [(vid, "V"), (xid, "X"), (wid, "W")] {
        sim.labels.lock().unwrap().insert(id, l.into());
    }
    let (mut ev, _) = v.subscribe().unwrap();
    let (nv, nw) = (sim.node_of(&v), sim.node_of(&w));
    // first X, then W; "out" = the victim dials, "in" = it is dialed
    let dirs: Vec<bool> = order.split('-').map(|d| d == "out").collect();
    for (i, (net, id, name)) in [(&x, xid, "X"), (&w, wid, "W")].into_iter().enumerate() {
        let r = if dirs[i] { v.connect(net.local_addr()).await } else { net.connect(v.local_addr()).await };
        match r {
            Ok(p) => {
                let want = if dirs[i] { id } else { vid };
                if p != want {
                    viol!("impersonation", "{ctx} the connection with {name} was reported as a connection with {}", sim.label(&p));
                }
            }
            Err(e) => viol!("honest-peer-rejected", "{ctx} connecting with {name} failed: {e}"),
        }
        tokio::time::sleep(ms(100)).await;
    }
    let mut listed = v.peers();
    listed.sort();
    let mut want = vec![xid, wid];
    want.sort();
    if listed != want {
        viol!("impersonation", "{ctx} the victim lists {:?} instead of X and W", listed.iter().map(|p| sim.label(p)).collect::<Vec<_>>());
    }
    let news: Vec<PeerId> = drain_events(&mut ev).iter().filter_map(|e| match e { anemo::types::PeerEvent::NewPeer(p) => Some(*p), _ => None }).collect();
    if news != vec![xid, wid] {
        viol!("impersonation", "{ctx} the victim announced {:?} instead of X then W", news.iter().map(|p| sim.label(p)).collect::<Vec<_>>());
    }
    // requests in both directions between V and W carry the right identities
    match tokio::time::timeout(ms(2_000), v.rpc(wid, Sim::request("v-to-w"))).await {
        Ok(Ok(resp)) => {
            if resp.peer_id() != Some(&wid) {
                viol!("impersonation", "{ctx} a response of W is attributed to {:?}", resp.peer_id().map(|p| sim.label(p)));
            }
        }
        other => viol!("honest-peer-rejected", "{ctx} rpc V->W failed: {:?}", other.map(|r| r.map(|_| ()).map_err(|e| e.to_string()))),
    }
    let _ = tokio::time::timeout(ms(2_000), w.rpc(vid, Sim::request("w-to-v"))).await;
    // a request OBJECT that already carries connection metadata naming X (what a relay holds
    // when it forwards an inbound request it got from X): neither the identity the handler
    // sees nor the one the response comes back with is taken from it
    for via_peer in [false, true] {
        let req = Sim::request(if via_peer { "v-to-w-relayed-peer" } else { "v-to-w-relayed" })
            .with_extension(xid)
            .with_extension(anemo::ConnectionOrigin::Inbound)
            .with_extension(anemo::Direction::Inbound)
            .with_extension(x.local_addr());
        let r = if via_peer {
            match v.peer(wid) {
                Some(mut p) => tokio::time::timeout(ms(2_000), p.rpc(req)).await,
                None => continue,
            }
        } else {
            tokio::time::timeout(ms(2_000), v.rpc(wid, req)).await
        };
        match r {
            Ok(Ok(resp)) => {
                if resp.peer_id() != Some(&wid) {
                    viol!("impersonation", "{ctx} V called W with a request object that carried X's identity among its extensions (a relayed inbound request): the response of W is attributed to {:?}", resp.peer_id().map(|p| sim.label(p)));
                }
            }
            other => viol!("honest-peer-rejected", "{ctx} rpc V->W with a relayed request object failed: {:?}", other.map(|r| r.map(|_| ()).map_err(|e| e.to_string()))),
        }
    }
    for r in sim.svc.requests.lock().unwrap().iter() {
        let expect = if r.node == nv { Some(wid) } else if r.node == nw { Some(vid) } else { None };
        if expect.is_some() && r.peer_id != expect {
            viol!("impersonation", "{ctx} a handler saw a request attributed to {:?} instead of {:?}", r.peer_id.map(|p| sim.label(&p)), expect.map(|p| sim.label(&p)));
        }
    }
    o.class = format!("two honest {order}");
    o
}

async fn scenario(sim: Arc<Sim>, unit: Value) -> Obs {
    if unit["role"] == "two_honest" {
        return scenario_two_honest(sim, unit).await;
    }
    let mut o = Obs::default();
    macro_rules! viol {
        ($k:expr, $($arg:tt)*) => { o.violations.push(($k.to_string(), format!($($arg)*))) };
    }
    let role = unit["role"].as_str().unwrap();
    let ident = unit["identity"].as_str().unwrap();
    let behaviour = unit["behaviour"].as_str().unwrap();
    let (id, attributable) = identity(ident);
    let history = unit["history"].as_str().unwrap_or("none");
    let ctx = format!("[{}adversary {role}, presents {ident}, then {behaviour}]", if history == "none" { String::new() } else { format!("history {history}; ") });
    // the real X exists too (its certificate is public knowledge), but is not connected to V
    let v = sim.start(&NodeSpec::new(V)).unwrap();
    let x = sim.start(&NodeSpec::new(X)).unwrap();
    let (xid, yid) = (x.peer_id(), peer_id_of_key(Y));
    sim.labels.lock().unwrap().insert(yid, "Y".into());
    sim.labels.lock().unwrap().insert(xid, "X".into());
    if history == "x_was_connected" {
        // the genuine X and the victim have completed handshakes in both directions shortly
        // before (so that whatever either side remembers about X's certificate is warm), and are
        // disconnected again
        for inbound in [true, false] {
            let r = if inbound { x.connect(v.local_addr()).await } else { v.connect(x.local_addr()).await };
            if let Err(e) = r {
                viol!("setup", "{ctx} history: X and the victim could not connect: {e}");
            }
            tokio::time::sleep(ms(30)).await;
            let _ = v.disconnect(xid);
            tokio::time::sleep(ms(100)).await;
        }
        if !v.peers().is_empty() || !x.peers().is_empty() {
            viol!("setup", "{ctx} history: X and the victim are still connected");
        }
    }
    let (mut ev, _) = v.subscribe().unwrap();
    let nv = sim.node_of(&v);
    let mut connect_result: Option<Result<PeerId, String>> = None;
    let mut response_attributed: Option<Option<PeerId>> = None;
    match role {
        "dials" => {
            let adv = Adversary::new(&sim, None);
            match adv.dial(v.local_addr(), NET_NAME, &id).await {
                Ok(conn) => {
                    o.log.push("TLS handshake completed from the adversary's point of view".into());
                    match behaviour {
                        "close_early" => {
                            conn.close(0u32.into(), b"bye");
                        }
                        "stall" => {
                            // never read the acknowledgement
                            tokio::time::sleep(ms(1_000)).await;
                        }
                        _ => {
                            let ack = tokio::time::timeout(ms(3_000), Adversary::read_ack(&conn)).await;
                            o.log.push(format!("ack: {:?}", ack.as_ref().map(|r| r.is_ok())));
                            // a request whose contents mention X everywhere
                            if let Ok((mut tx, mut rx)) = conn.open_bi().await {
                                let xhex = xid.to_string();
                                let req = encode_request(&format!("/{xhex}"), &[("id", "adv"), ("peer-id", &xhex), ("peer_id", &xhex), ("x-peer-id", &xhex)], &xid.0);
                                let _ = tx.write_all(&req).await;
                                let _ = tx.finish();
                                let _ = tokio::time::timeout(ms(1_000), rx.read_to_end(1 << 20)).await;
                            }
                            // serve one request of the victim so that it can attribute a response
                            let c2 = conn.clone();
                            tokio::spawn(async move {
                                if let Ok((mut tx, mut rx)) = c2.accept_bi().await {
                                    let _ = rx.read_to_end(1 << 20).await;
                                    let mut resp = b"anemo\x00\x01\x00".to_vec();
                                    let h: Vec<u8> = [200u16.to_le_bytes().to_vec(), 1u64.to_le_bytes().to_vec(), 7u64.to_le_bytes().to_vec(), b"peer-id".to_vec(), 64u64.to_le_bytes().to_vec(), [b'a'; 64].to_vec()].concat();
                                    resp.extend_from_slice(&(h.len() as u32).to_be_bytes());
                                    resp.extend_from_slice(&h);
                                    resp.extend_from_slice(&2u32.to_be_bytes());
                                    resp.extend_from_slice(b"ok");
                                    let _ = tx.write_all(&resp).await;
                                    let _ = tx.finish();
                                    let _ = tx.stopped().await;
                                }
                            });
                            tokio::time::sleep(ms(50)).await;
                            for p in v.peers() {
                                let r = tokio::time::timeout(ms(1_000), v.rpc(p, Sim::request("to-adv"))).await;
                                if let Ok(Ok(resp)) = r {
                                    response_attributed = Some(resp.peer_id().copied());
                                }
                            }
                        }
                    }
                    tokio::time::sleep(ms(300)).await;
                    drop(conn);
                }
                Err(e) => o.log.push(format!("adversary's handshake failed: {e}")),
            }
        }
        "dialed" | "dialed_pinned_x" | "dialed_pinned_y" | "dialed_pinned_y_then_x" | "dialed_pinned_y_disconnect_then_x" | "dialed_then_pinned_x" => {
            let adv = Adversary::new(&sim, Some(&id));
            let ep = adv.endpoint.clone();
            let b2 = behaviour.to_string();
            let acceptor = tokio::spawn(async move {
                while let Some(inc) = ep.accept().await {
                    if let Ok(conn) = inc.await {
                        match b2.as_str() {
                            "close_early" => conn.close(0u32.into(), b"bye"),
                            "stall" => tokio::time::sleep(ms(20_000)).await,
                            _ => {
                                let _ = Adversary::send_ack(&conn).await;
                                // answer requests, mentioning X
                                while let Ok((mut tx, mut rx)) = conn.accept_bi().await {
                                    let _ = rx.read_to_end(1 << 20).await;
                                    let _ = tx.write_all(&crate::checks::c01::fake_response()).await;
                                    let _ = tx.finish();
                                }
                            }
                        }
                    }
                }
            });
            let r = match role {
                "dialed" => v.connect(adv.addr).await,
                "dialed_pinned_x" => v.connect_with_peer_id(adv.addr, xid).await,
                "dialed_pinned_y" => v.connect_with_peer_id(adv.addr, yid).await,
                // multi-step histories: a first dial to the same address (with another or no
                // expectation), then a dial expecting X, which this party can never satisfy
                _ => {
                    let first = if role == "dialed_then_pinned_x" { v.connect(adv.addr).await } else { v.connect_with_peer_id(adv.addr, yid).await };
                    o.log.push(format!("first dial: {:?}", first.as_ref().map(|p| sim.label(p)).map_err(|e| e.to_string().chars().take(60).collect::<String>())));
                    if let Ok(p) = &first {
                        if *p == xid {
                            viol!("impersonation", "{ctx} the first dial returned X");
                        }
                    }
                    tokio::time::sleep(ms(50)).await;
                    if role == "dialed_pinned_y_disconnect_then_x" {
                        let _ = v.disconnect(yid);
                        tokio::time::sleep(ms(50)).await;
                    }
                    let second = v.connect_with_peer_id(adv.addr, xid).await;
                    if second.is_ok() {
                        viol!("pin-bypassed", "{ctx} after an earlier dial to the same address, connect_with_peer_id(X) succeeded against a party without X's key");
                    }
                    second
                }
            };
            connect_result = Some(r.map_err(|e| e.to_string().chars().take(100).collect()));
            tokio::time::sleep(ms(100)).await;
            for p in v.peers() {
                let r = tokio::time::timeout(ms(1_000), v.rpc(p, Sim::request("to-adv"))).await;
                if let Ok(Ok(resp)) = r {
                    response_attributed = Some(resp.peer_id().copied());
                }
            }
            tokio::time::sleep(ms(300)).await;
            acceptor.abort();
        }
        r => panic!("role {r}"),
    }
    tokio::time::sleep(ms(500)).await;
    // ---- what the victim attributed ----
    let events = drain_events(&mut ev);
    let mut attributed: Vec<(String, PeerId)> = vec![];
    for e in &events {
        match e {
            anemo::types::PeerEvent::NewPeer(p) => attributed.push(("NewPeer event".into(), *p)),
            anemo::types::PeerEvent::LostPeer(p, _) => attributed.push(("LostPeer event".into(), *p)),
        }
    }
    for p in v.peers() {
        attributed.push(("peers() listing".into(), p));
    }
    if let Some(Ok(p)) = &connect_result {
        attributed.push(("connect result".into(), *p));
    }
    if let Some(Some(p)) = response_attributed {
        attributed.push(("Response::peer_id".into(), p));
    }
    for r in sim.svc.requests.lock().unwrap().iter().filter(|r| r.node == nv) {
        match r.peer_id {
            Some(p) => attributed.push(("Request::peer_id in the handler".into(), p)),
            None => viol!("request-without-identity", "{ctx} a handler saw a request with no peer identity attached"),
        }
    }
    o.log.push(format!("connect result {connect_result:?}; attributed {:?}", attributed.iter().map(|(w, p)| format!("{w}: {}", sim.label(p))).collect::<Vec<_>>()));
    for (what, p) in &attributed {
        if *p == xid {
            viol!("impersonation", "{ctx} the victim attributed X's identity to the adversary ({what}); the adversary never held X's key");
        } else if Some(*p) != attributable {
            viol!("unauthenticated-identity", "{ctx} the victim attributed identity {} ({what}); the only identity this adversary can prove is {:?}", sim.label(p), attributable.map(|p| sim.label(&p)));
        }
    }
    // honest Y completing the handshake must be admitted as exactly Y
    let honest_complete = attributable.is_some() && behaviour == "complete" && role != "dialed_pinned_x";
    // (a sanity clause, not part of the property: only judged when no datagram fate was altered —
    // with several losses the handshake need not finish within the scenario's horizon)
    let deviations = sim.chooser.lock().unwrap().choices().iter().filter(|c| **c != 0).count();
    if honest_complete && deviations == 0 && !attributed.iter().any(|(_, p)| Some(*p) == attributable) {
        viol!("honest-peer-rejected", "{ctx} an adversary-free handshake with a provable identity was not admitted (events {:?}, connect {connect_result:?})", events.len());
    }
    if role == "dialed_pinned_x" && matches!(connect_result, Some(Ok(_))) {
        viol!("pin-bypassed", "{ctx} connect_with_peer_id(X) succeeded against a party without X's key");
    }
    if role == "dialed_pinned_y" && ident != "honest_y" && ident != "chain_y_then_x" && matches!(connect_result, Some(Ok(_))) {
        viol!("unauthenticated-identity", "{ctx} connect_with_peer_id(Y) succeeded");
    }
    if x.peers().len() != 0 {
        viol!("setup", "{ctx} the real X got connected");
    }
    o.class = format!("{role} admitted={}", !attributed.is_empty());
    o
}

pub fn fake_response() -> Vec<u8> {
    let mut resp = b"anemo\x00\x01\x00".to_vec();
    let h: Vec<u8> = [200u16.to_le_bytes().to_vec(), 0u64.to_le_bytes().to_vec()].concat();
    resp.extend_from_slice(&(h.len() as u32).to_be_bytes());
    resp.extend_from_slice(&h);
    resp.extend_from_slice(&2u32.to_be_bytes());
    resp.extend_from_slice(b"ok");
    let _ = decode_response(&resp);
    resp
}

fn judge(o: &Obs) -> Judged {
    Judged { class: o.class.clone(), violations: o.violations.clone(), sample: Some(json!(o.log)) }
}

impl Check for C01 {
    fn meta(&self, _tier: Tier) -> CheckMeta {
        CheckMeta {
            property: "C01",
            level: "fault_enumeration",
            rule: "verifier layer: honest, replayed, re-signed, non-Ed25519, expired, not-yet-valid, wrong-EKU, wrong-name, concatenated certificates, every truncation and every single-byte substitution (5 values quick / all 255 thorough) of a valid certificate, offered to the client verifier, the server verifier (with and without an attached intermediate, pinned to X and to Y) and peer_id_from_certificate, against a ring + x509-parser reference; handshake-signature verifiers on all 65536 scheme codes x {right, wrong key}, every single-bit flip of a valid signature and every single-byte change of the message, for all three verifier types; system layer: adversary role {dials, is dialed, is dialed with pin X, with pin Y, is dialed with pin Y (or none) and then - with or without a disconnect in between - with pin X} x 9 presented identities x {complete, stall before the acknowledgement, close early}, two honest networks connected one after the other in every direction combination (calls between them also with a request object that already carries another identity's connection metadata among its extensions, as a relay's does) (no adversary: nothing kept from the first handshake may colour the second identity); the main roles also after a history in which the genuine X and the victim had connected in both directions and disconnected, with datagram-fate deviations over the handshake, and requests/responses whose contents name X; distinct = distinct (verdict class / role, admitted)".into(),
            assumptions: vec!["three fixed key pairs (victim, X, adversary Y); ring's Ed25519 and x509-parser are the trusted reference".into()],
            exhaustive: true,
        }
    }

    fn units(&self, tier: Tier) -> Vec<Value> {
        let mut u = vec![json!({"kind":"signatures","on_death":"verifier-aborts-process"}), json!({"kind":"sessions","on_death":"verifier-aborts-process"})];
        for part in 0..16 {
            u.push(json!({"kind":"verifier","part":part,"parts":16,"on_death":"verifier-aborts-process"}));
        }
        for order in ["out-out", "out-in", "in-out", "in-in"] {
            u.push(json!({"kind":"system","role":"two_honest","identity":"none","behaviour":"complete","order":order,"bound":tier.pick(0, 1)}));
        }
        for role in ["dials", "dialed", "dialed_pinned_x"] {
            for ident in ["honest_y", "replay_x", "forged_x_signed_by_y", "chain_x_then_y", "chain_y_then_x"] {
                u.push(json!({"kind":"system","role":role,"identity":ident,"behaviour":"complete","history":"x_was_connected","bound":tier.pick(0, 1)}));
            }
        }
        for role in ["dials", "dialed", "dialed_pinned_x", "dialed_pinned_y", "dialed_pinned_y_then_x", "dialed_pinned_y_disconnect_then_x", "dialed_then_pinned_x"] {
            for ident in IDENTITIES {
                if role != "dials" && ident == "no_cert" {
                    continue; // a server cannot run without a certificate
                }
                for behaviour in ["complete", "stall", "close_early"] {
                    u.push(json!({"kind":"system","role":role,"identity":ident,"behaviour":behaviour,"bound": if behaviour == "complete" { if tier == Tier::Thorough && matches!(ident, "honest_y" | "replay_x" | "chain_y_then_x") && !role.contains("then") { 3 } else { tier.pick(1, 2) } } else { tier.pick(0, 1) }}));
                }
            }
        }
        u
    }

    fn run_unit(&self, tier: Tier, unit: &Value, out: &mut UnitResult) {
        match unit["kind"].as_str().unwrap() {
            "signatures" => verifier_signatures(out),
            "sessions" => verifier_sessions(out),
            "verifier" => verifier_certs(tier, out, unit["part"].as_u64().unwrap() as usize, unit["parts"].as_u64().unwrap() as usize),
            _ => {
                let u = unit.clone();
                let bound = unit["bound"].as_u64().unwrap() as usize;
                explore_sim(
                    out,
                    crate::seed(),
                    unit,
                    2_000,
                    bound,
                    20_000,
                    true,
                    move |sim| {
                        let u = u.clone();
                        async move {
                            sim.fabric.set_fate_window(0, 16);
                            scenario(sim, u).await
                        }
                        .boxed()
                    },
                    |o: &Obs, _p, _c| judge(o),
                );
            }
        }
    }

    fn replay(&self, replay: &Value) -> String {
        let unit = replay["unit"].clone();
        match unit["kind"].as_str().unwrap_or("") {
            "system" => {
                let choices: Vec<u32> = replay["choices"].as_array().map(|a| a.iter().map(|x| x.as_u64().unwrap() as u32).collect()).unwrap_or_default();
                let seed = replay["seed"].as_u64().unwrap_or(1);
                let u = unit.clone();
                let o = sim_exec(seed, &choices, 2_000, move |sim| {
                    async move {
                        sim.fabric.set_fate_window(0, 16);
                        scenario(sim, u).await
                    }
                    .boxed()
                });
                match o.run {
                    Some(r) => format!("unit {unit}\nchoices {choices:?}\n{}\nviolations {:#?}\npanics {:?}", r.obs.log.join("\n"), r.obs.violations, o.panics),
                    None => format!("execution hung={} panics={:?}", o.hung, o.panics),
                }
            }
            k => {
                let mut out = UnitResult::default();
                if k == "signatures" {
                    verifier_signatures(&mut out);
                } else if k == "sessions" {
                    verifier_sessions(&mut out);
                } else {
                    for part in 0..16 {
                        verifier_certs(Tier::Thorough, &mut out, part, 16);
                    }
                }
                format!("re-ran the {k} layer (wanted {} / {}): {:#?}", replay["input"], replay["detail"], out.violations.iter().map(|v| (&v.key, &v.message)).collect::<Vec<_>>())
            }
        }
    }

    fn finish(&self, _tier: Tier, total: &mut UnitResult) -> Map<String, Value> {
        for need in ["verifier accepted=true", "verifier accepted=false parses=true", "verifier accepted=false parses=false", "signature accepted=true", "session signature accepted=false", "dials admitted=true", "dials admitted=false", "dialed admitted=true", "dialed admitted=false", "dialed_pinned_y admitted=true"] {
            if !total.classes.keys().any(|k| k.starts_with(need)) {
                total.machinery_errors.push(format!("vacuous: class `{need}` missing"));
            }
        }
        Map::new()
    }
}
