use crate::Check;

pub mod c05;

pub fn get(id: &str) -> Option<Box<dyn Check>> {
    match id {
        "C05" => Some(Box::new(c05::C05)),
        _ => None,
    }
}
