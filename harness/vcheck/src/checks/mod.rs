use crate::Check;

pub mod c01;
pub mod c02;
pub mod c03;
pub mod c04;
pub mod c05;
pub mod c05pair;
pub mod c06;
pub mod c07;
pub mod c08;
pub mod c09;
pub mod c10;
pub mod c11;
pub mod c12;
pub mod c13;
pub mod c14;
pub mod c15;
pub mod c16;
pub mod c17;
pub mod c18;
pub mod c19;
pub mod c20;

pub fn get(id: &str) -> Option<Box<dyn Check>> {
    match id {
        "C02" => Some(Box::new(c02::C02)),
        "C11" => Some(Box::new(c11::C11)),
        "C15" => Some(Box::new(c15::C15)),
        "C14" => Some(Box::new(c14::C14)),
        "C12" => Some(Box::new(c12::C12)),
        "C04" => Some(Box::new(c04::C04)),
        "C09" => Some(Box::new(c09::C09)),
        "C10" => Some(Box::new(c10::C10)),
        "C13" => Some(Box::new(c13::C13)),
        "C08" => Some(Box::new(c08::C08)),
        "C07" => Some(Box::new(c07::C07)),
        "C16" => Some(Box::new(c16::C16)),
        "C18" => Some(Box::new(c18::C18)),
        "C20" => Some(Box::new(c20::C20)),
        "C19" => Some(Box::new(c19::C19)),
        "C17" => Some(Box::new(c17::C17)),
        "C01" => Some(Box::new(c01::C01)),
        "C03" => Some(Box::new(c03::C03)),
        "C06" => Some(Box::new(c06::C06)),
        "C05" => Some(Box::new(c05::C05)),
        _ => None,
    }
}
