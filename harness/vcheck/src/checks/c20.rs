//! C20 — the authorization layer gates every request and the allow-list is exact.
//! Every allow-list over 3 identities x every sequence of up to 3 concurrent requests (sender
//! absent / each identity / a 4th) through clones of the layered service x every poll and
//! completion order, with an inner service that counts invocations at `call` time.

use crate::explore::permutations;
use crate::report::{CheckMeta, UnitResult};
use crate::{Check, Tier};
use anemo::types::response::StatusCode;
use anemo::{PeerId, Request, Response};
use anemo_tower::auth::{AllowedPeers, RequireAuthorizationLayer};
use bytes::Bytes;
use futures::future::BoxFuture;
use serde_json::{json, Map, Value};
use std::collections::HashMap;
use std::convert::Infallible;
use std::sync::atomic::{AtomicBool, Ordering};
use std::sync::{Arc, Mutex};
use std::task::{Context, Poll, Wake, Waker};
use tower::{Layer, Service};

pub struct C20;

#[derive(Default)]
struct Shared {
    /// request id -> (sender seen by the service, headers seen)
    invoked: Vec<(usize, Option<PeerId>, Option<String>)>,
    gates: HashMap<usize, tokio::sync::oneshot::Sender<()>>,
}

#[derive(Clone)]
struct Inner {
    shared: Arc<Mutex<Shared>>,
}

impl Service<Request<Bytes>> for Inner {
    type Response = Response<Bytes>;
    type Error = Infallible;
    type Future = BoxFuture<'static, Result<Response<Bytes>, Infallible>>;
    fn poll_ready(&mut self, _: &mut Context<'_>) -> Poll<Result<(), Infallible>> {
        Poll::Ready(Ok(()))
    }
    fn call(&mut self, req: Request<Bytes>) -> Self::Future {
        let id: usize = req.headers().get("id").unwrap().parse().unwrap();
        let (tx, rx) = tokio::sync::oneshot::channel();
        {
            let mut s = self.shared.lock().unwrap();
            s.invoked.push((id, req.peer_id().copied(), req.headers().get("stamp").cloned()));
            s.gates.insert(id, tx);
        }
        Box::pin(async move {
            let _ = rx.await;
            Ok(Response::new(Bytes::from(format!("served {id}"))).with_header("from", "inner"))
        })
    }
}

struct Flag(AtomicBool);
impl Wake for Flag {
    fn wake(self: Arc<Self>) {
        self.0.store(true, Ordering::SeqCst);
    }
}

/// Four identities that differ in their LAST byte only (any index keyed by a part of the
/// identity collides on them).
fn ids() -> [PeerId; 4] {
    let mk = |last: u8| {
        let mut b = [0xab; 32];
        b[31] = last;
        PeerId(b)
    };
    [mk(1), mk(2), mk(3), mk(4)]
}

/// sender index: 0 = no identity attached, 1..=3 the three identities, 4 = a fourth identity
fn request(k: usize, sender: usize) -> Request<Bytes> {
    let mut r = Request::new(Bytes::from(format!("body {k}"))).with_header("id", k.to_string());
    if sender > 0 {
        r = r.with_extension(ids()[sender - 1]);
    }
    // the connection metadata an inbound request carries next to the sender's identity: who
    // dialed the connection it came over, and its direction (varied with the request index;
    // none of it may change an authorizer's verdict)
    match k % 4 {
        0 => r = r.with_extension(anemo::ConnectionOrigin::Outbound).with_extension(anemo::Direction::Inbound),
        1 => r = r.with_extension(anemo::ConnectionOrigin::Inbound).with_extension(anemo::Direction::Inbound),
        2 => {}
        _ => r = r.with_extension(anemo::ConnectionOrigin::Outbound),
    }
    r
}

type Fut = BoxFuture<'static, Result<Response<Bytes>, Infallible>>;

/// What the authorizer of this unit decides for a sender (reference, from the statement)
fn reference(auth: &Value, sender: usize, k: usize) -> Result<(), (StatusCode, Vec<u8>, Option<String>)> {
    match auth["kind"].as_str().unwrap() {
        "two_lists" => {
            // two independent allow-lists in one process; request k goes to list k % 2
            let mask = auth[if k % 2 == 0 { "a" } else { "b" }].as_u64().unwrap();
            reference(&json!({"kind":"allowed_peers","mask":mask}), sender, k)
        }
        "allowed_peers" => {
            let mask = auth["mask"].as_u64().unwrap();
            if sender == 0 {
                Err((StatusCode::InternalServerError, vec![], None))
            } else if sender <= 3 && mask & (1 << (sender - 1)) != 0 {
                Ok(())
            } else {
                Err((StatusCode::NotFound, vec![], None))
            }
        }
        "nested_allowed_peers" => {
            // two allow-lists on the request's path: it must pass both, the outer one answers first
            let (outer, inner) = (auth["outer"].as_u64().unwrap(), auth["inner"].as_u64().unwrap());
            if sender == 0 {
                Err((StatusCode::InternalServerError, vec![], None))
            } else if sender <= 3 && outer & (1 << (sender - 1)) != 0 && inner & (1 << (sender - 1)) != 0 {
                Ok(())
            } else {
                Err((StatusCode::NotFound, vec![], None))
            }
        }
        "accept_all" | "mutate_then_accept" => Ok(()),
        "reject_custom" => Err((StatusCode::TooManyRequests, b"go away".to_vec(), Some("nope".into()))),
        "reject_odd_senders" => {
            if sender % 2 == 1 {
                Err((StatusCode::BadRequest, format!("sender {sender}").into_bytes(), Some("odd".into())))
            } else {
                Ok(())
            }
        }
        k => panic!("auth {k}"),
    }
}

fn build(auth: &Value, shared: &Arc<Mutex<Shared>>) -> Vec<Box<dyn FnMut(Request<Bytes>) -> Fut>> {
    let inner = Inner { shared: shared.clone() };
    macro_rules! clones {
        ($layer:expr) => {{
            let layer = $layer;
            let s = layer.layer(inner.clone());
            let (mut a, mut b, mut c) = (s.clone(), s.clone(), layer.layer(inner.clone()));
            vec![
                Box::new(move |r| Box::pin(a.call(r)) as Fut) as Box<dyn FnMut(Request<Bytes>) -> Fut>,
                Box::new(move |r| Box::pin(b.call(r)) as Fut),
                Box::new(move |r| Box::pin(c.call(r)) as Fut),
            ]
        }};
    }
    match auth["kind"].as_str().unwrap() {
        "allowed_peers" => {
            let mask = auth["mask"].as_u64().unwrap();
            let list: Vec<PeerId> = (0..3).filter(|i| mask & (1 << i) != 0).map(|i| ids()[i]).collect();
            clones!(RequireAuthorizationLayer::new(AllowedPeers::new(list)))
        }
        "nested_allowed_peers" => {
            let list = |mask: u64| -> Vec<PeerId> { (0..3).filter(|i| mask & (1 << i) != 0).map(|i| ids()[i]).collect() };
            let outer = RequireAuthorizationLayer::new(AllowedPeers::new(list(auth["outer"].as_u64().unwrap())));
            let inner_layer = RequireAuthorizationLayer::new(AllowedPeers::new(list(auth["inner"].as_u64().unwrap())));
            let s = outer.layer(inner_layer.layer(inner.clone()));
            let (mut a, mut b, mut c) = (s.clone(), s.clone(), outer.layer(inner_layer.layer(inner.clone())));
            vec![
                Box::new(move |r| Box::pin(a.call(r)) as Fut) as Box<dyn FnMut(Request<Bytes>) -> Fut>,
                Box::new(move |r| Box::pin(b.call(r)) as Fut),
                Box::new(move |r| Box::pin(c.call(r)) as Fut),
            ]
        }
        "two_lists" => {
            let list = |mask: u64| -> Vec<PeerId> { (0..3).filter(|i| mask & (1 << i) != 0).map(|i| ids()[i]).collect() };
            let la = RequireAuthorizationLayer::new(AllowedPeers::new(list(auth["a"].as_u64().unwrap())));
            let lb = RequireAuthorizationLayer::new(AllowedPeers::new(list(auth["b"].as_u64().unwrap())));
            let (sa, sb) = (la.layer(inner.clone()), lb.layer(inner.clone()));
            let (mut a, mut b, mut a2, mut b2) = (sa.clone(), sb.clone(), la.layer(inner.clone()), sb.clone());
            vec![
                Box::new(move |r| Box::pin(a.call(r)) as Fut) as Box<dyn FnMut(Request<Bytes>) -> Fut>,
                Box::new(move |r| Box::pin(b.call(r)) as Fut),
                Box::new(move |r| Box::pin(a2.call(r)) as Fut),
                Box::new(move |r| Box::pin(b2.call(r)) as Fut),
            ]
        }
        "accept_all" => clones!(RequireAuthorizationLayer::new(|_r: &mut Request<Bytes>| -> Result<(), Response<Bytes>> { Ok(()) })),
        "mutate_then_accept" => clones!(RequireAuthorizationLayer::new(|r: &mut Request<Bytes>| -> Result<(), Response<Bytes>> {
            r.headers_mut().insert("stamp".into(), "authorized".into());
            Ok(())
        })),
        "reject_custom" => clones!(RequireAuthorizationLayer::new(|_r: &mut Request<Bytes>| -> Result<(), Response<Bytes>> {
            Err(Response::new(Bytes::from_static(b"go away")).with_status(StatusCode::TooManyRequests).with_header("why", "nope"))
        })),
        "reject_odd_senders" => clones!(RequireAuthorizationLayer::new(|r: &mut Request<Bytes>| -> Result<(), Response<Bytes>> {
            let sender = r.peer_id().map(|p| p.0[31] as usize).unwrap_or(0);
            if sender % 2 == 1 {
                Err(Response::new(Bytes::from(format!("sender {sender}"))).with_status(StatusCode::BadRequest).with_header("why", "odd"))
            } else {
                Ok(())
            }
        })),
        k => panic!("auth {k}"),
    }
}

/// One execution: create the calls in order, then poll / complete in the given orders.
fn execute(auth: &Value, senders: &[usize], poll_order: &[usize], complete_order: &[usize]) -> Result<String, (String, String)> {
    let shared = Arc::new(Mutex::new(Shared::default()));
    let mut svcs = build(auth, &shared);
    let n = senders.len();
    let mut futs: Vec<Option<Fut>> = vec![];
    let flags: Vec<Arc<Flag>> = (0..n).map(|_| Arc::new(Flag(AtomicBool::new(true)))).collect();
    let mut results: Vec<Option<Response<Bytes>>> = (0..n).map(|_| None).collect();
    for (k, s) in senders.iter().enumerate() {
        let nsvc = svcs.len();
        let f = svcs[k % nsvc](request(k, *s));
        futs.push(Some(f));
        // invocation must be decided at call time or later, never for refused requests
    }
    let mut poll = |k: usize, futs: &mut Vec<Option<Fut>>, results: &mut Vec<Option<Response<Bytes>>>| {
        if let Some(f) = futs[k].as_mut() {
            flags[k].0.store(false, Ordering::SeqCst);
            let w = Waker::from(flags[k].clone());
            let mut cx = Context::from_waker(&w);
            if let Poll::Ready(Ok(r)) = f.as_mut().poll(&mut cx) {
                results[k] = Some(r);
                futs[k] = None;
            }
        }
    };
    for k in poll_order {
        poll(*k, &mut futs, &mut results);
    }
    for k in complete_order {
        let tx = shared.lock().unwrap().gates.remove(k);
        if let Some(tx) = tx {
            let _ = tx.send(());
        }
        // poll whatever got woken, in index order
        for j in 0..n {
            if flags[j].0.load(Ordering::SeqCst) {
                poll(j, &mut futs, &mut results);
            }
        }
    }
    let mut shape = String::new();
    let s = shared.lock().unwrap();
    for (k, sender) in senders.iter().enumerate() {
        let invocations: Vec<_> = s.invoked.iter().filter(|i| i.0 == k).collect();
        let want = reference(auth, *sender, k);
        let ctx = format!("[authorizer {auth}, senders {senders:?}, poll order {poll_order:?}, completion order {complete_order:?}] request {k} (sender {sender})");
        match want {
            Ok(()) => {
                shape.push('a');
                if invocations.len() != 1 {
                    return Err(("accepted-but-not-invoked".into(), format!("{ctx}: accepted by the authorizer but the wrapped service was invoked {} times", invocations.len())));
                }
                let expect_sender = if *sender > 0 { Some(ids()[sender - 1]) } else { None };
                if invocations[0].1 != expect_sender {
                    return Err(("request-altered".into(), format!("{ctx}: the wrapped service saw sender {:?}", invocations[0].1)));
                }
                if auth["kind"] == "mutate_then_accept" && invocations[0].2.as_deref() != Some("authorized") {
                    return Err(("request-altered".into(), format!("{ctx}: the authorizer's change to the request did not reach the wrapped service")));
                }
                match &results[k] {
                    Some(r) if r.status() == StatusCode::Success && r.body().as_ref() == format!("served {k}").as_bytes() => {}
                    other => return Err(("wrong-response".into(), format!("{ctx}: expected the wrapped service's answer, got {:?}", other.as_ref().map(|r| (r.status(), r.body().clone()))))),
                }
            }
            Err((status, body, why)) => {
                shape.push('r');
                if !invocations.is_empty() {
                    return Err(("refused-but-invoked".into(), format!("{ctx}: refused by the authorizer but the wrapped service was invoked {} time(s)", invocations.len())));
                }
                match &results[k] {
                    Some(r) if r.status() == status && r.body().as_ref() == body.as_slice() && r.headers().get("why").cloned() == why && r.headers().get("from").is_none() => {}
                    other => return Err(("wrong-refusal".into(), format!("{ctx}: expected exactly the authorizer's response ({status:?}, {} body bytes, why={why:?}), got {:?}", body.len(), other.as_ref().map(|r| (r.status(), r.body().clone(), r.headers().clone()))))),
                }
            }
        }
    }
    let extra = s.invoked.iter().filter(|i| i.0 >= n).count();
    if extra > 0 {
        return Err(("refused-but-invoked".into(), "the wrapped service saw a request nobody sent".into()));
    }
    Ok(shape)
}

/// Free-running pass (sampled): the FIRST requests through clones of one freshly built
/// allow-list layer, issued from several OS threads at the same instant. State shared between
/// clones that is initialised on first use can only misbehave here. The oracle is exact.
fn free_running(unit: &Value, out: &mut UnitResult) {
    let trials = unit["trials"].as_u64().unwrap() as usize;
    let threads = 4usize;
    for trial in 0..trials {
        crate::pool::crumb(|| format!("free-running allow-list trial {trial}"));
        out.evaluations += 1;
        // a long list (the listed senders first and last in it), fresh for every trial
        let n = 20_000usize;
        let id = |i: usize| {
            let mut b = [0x5a; 32];
            b[..8].copy_from_slice(&(i as u64).to_le_bytes());
            PeerId(b)
        };
        let list: Vec<PeerId> = (0..n).map(id).collect();
        let layer = RequireAuthorizationLayer::new(AllowedPeers::new(list));
        let counter = Arc::new(std::sync::atomic::AtomicUsize::new(0));
        let gate = Arc::new(std::sync::atomic::AtomicUsize::new(0));
        let mut hs = vec![];
        for t in 0..threads {
            let c2 = counter.clone();
            let inner = tower::service_fn(move |_r: Request<Bytes>| {
                c2.fetch_add(1, Ordering::SeqCst);
                async move { Ok::<_, Infallible>(Response::new(Bytes::new())) }
            });
            let mut svc = layer.layer(inner);
            let gate = gate.clone();
            // thread 0..2: listed senders (first, last, middle); thread 3: an unlisted one
            let (sender, listed) = match t {
                0 => (id(0), true),
                1 => (id(n - 1), true),
                2 => (id(n / 2), true),
                _ => (id(n + 7), false),
            };
            hs.push(std::thread::spawn(move || {
                gate.fetch_add(1, Ordering::SeqCst);
                while gate.load(Ordering::SeqCst) < threads {
                    std::hint::spin_loop();
                }
                let rt = tokio::runtime::Builder::new_current_thread().enable_time().build().unwrap();
                let resp = rt.block_on(svc.call(Request::new(Bytes::new()).with_extension(sender))).unwrap();
                (listed, resp.status())
            }));
        }
        let results: Vec<(bool, StatusCode)> = hs.into_iter().map(|h| h.join().unwrap()).collect();
        let served = counter.load(Ordering::SeqCst);
        for (listed, status) in &results {
            let want = if *listed { StatusCode::Success } else { StatusCode::NotFound };
            if *status != want {
                out.violation("wrong-refusal", format!("[free-running, {threads} threads issuing the first requests through clones of a fresh allow-list of {n}] a {} sender got {status:?}", if *listed { "listed" } else { "unlisted" }), json!({"unit": unit, "trial": trial}));
            }
        }
        if served != 3 {
            out.violation(if served > 3 { "refused-but-invoked" } else { "accepted-but-not-invoked" }, format!("[free-running] the wrapped service was invoked {served} times for 3 listed and 1 unlisted sender"), json!({"unit": unit, "trial": trial}));
        }
        out.class("free-running first requests");
    }
    out.count("free_running_trials", trials as u64);
}

fn sequences(max: usize) -> Vec<Vec<usize>> {
    let mut out = vec![];
    let mut layer: Vec<Vec<usize>> = vec![vec![]];
    for _ in 0..max {
        let mut next = vec![];
        for s in &layer {
            for x in 0..5 {
                let mut t = s.clone();
                t.push(x);
                next.push(t);
            }
        }
        out.extend(next.iter().cloned());
        layer = next;
    }
    out
}

impl Check for C20 {
    fn meta(&self, _tier: Tier) -> CheckMeta {
        CheckMeta {
            property: "C20",
            level: "model_checking",
            rule: "authorizers: AllowedPeers over every subset of 3 identities, 14 pairs of nested AllowedPeers layers (outer list around inner list), 7 pairs of independent AllowedPeers layers side by side (requests alternate between the two), accept-all, reject-with-custom-response, reject-by-sender, mutate-then-accept; request sequences: every sequence of 1-3 (quick) / 1-4 (thorough) senders from {no identity, 3 identities, a 4th} (each request also carries connection metadata - dialed-by-us / dialed-by-them, direction - varied with its index) dispatched round-robin over 3 instances of the layered service (two clones + one built again from the layer); every poll order and every completion order; the inner service counts invocations when `call` is made; states = executions, transitions = requests; distinct = distinct accept/refuse shapes".into(),
            assumptions: vec!["hand-driven executor; the authorizers are synchronous, as the trait requires".into(), "a supplementary FREE-RUNNING pass (4 OS threads issuing the first requests through clones of a fresh 20 000-entry allow-list, 160 | 1600 trials, exact oracle) samples races in state shared between clones; counted under free_running_trials, not part of the exhaustive claim".into()],
            exhaustive: true,
        }
    }

    fn units(&self, _tier: Tier) -> Vec<Value> {
        let mut u: Vec<Value> = (0..8).map(|m| json!({"kind":"allowed_peers","mask":m})).collect();
        for (outer, inner) in [(7u64, 0u64), (7, 1), (7, 2), (7, 4), (7, 3), (7, 5), (7, 6), (7, 7), (3, 1), (3, 2), (5, 4), (1, 2), (2, 1), (6, 3)] {
            u.push(json!({"kind":"nested_allowed_peers","outer":outer,"inner":inner}));
        }
        // two independent allow-lists side by side in one process (requests alternate between them)
        for (a, b) in [(1u64, 2u64), (2, 1), (0, 7), (7, 0), (3, 5), (5, 6), (1, 1)] {
            u.push(json!({"kind":"two_lists","a":a,"b":b}));
        }
        for part in 0..4 {
            u.push(json!({"kind":"free-running","part":part,"trials":_tier.pick(40, 400)}));
        }
        for k in ["accept_all", "mutate_then_accept", "reject_custom", "reject_odd_senders"] {
            u.push(json!({"kind":k}));
        }
        u
    }

    fn run_unit(&self, tier: Tier, unit: &Value, out: &mut UnitResult) {
        if unit["kind"] == "free-running" {
            free_running(unit, out);
            return;
        }
        for senders in sequences(tier.pick(4, 5)) {
            crate::pool::crumb(|| format!("authorization layer, senders {senders:?}"));
            let n = senders.len();
            for po in permutations(n) {
                for co in permutations(n) {
                    // also the case where nothing is polled before completion
                    for (pi, poll_order) in [po.clone(), vec![]].iter().enumerate() {
                        if pi == 1 && co != (0..n).collect::<Vec<_>>() {
                            continue;
                        }
                        out.evaluations += 1;
                        out.states += 1;
                        out.transitions += n as u64;
                        out.traces_validated += 1;
                        match execute(unit, &senders, poll_order, &co) {
                            Ok(shape) => {
                                out.class(shape);
                            }
                            Err((k, m)) => out.violation(k, m, json!({"unit": unit, "senders": senders, "poll_order": poll_order, "complete_order": co})),
                        }
                    }
                }
            }
            if out.samples.is_empty() && n == 3 {
                out.sample(json!({"authorizer": unit, "senders": senders}));
            }
        }
    }

    fn replay(&self, replay: &Value) -> String {
        if replay["unit"]["kind"] == "free-running" {
            let mut out = UnitResult::default();
            free_running(&replay["unit"], &mut out);
            return format!("free-running unit re-run (thread timing is not reproducible): {:?}", out.violations.iter().map(|v| &v.message).collect::<Vec<_>>());
        }
        let v = |k: &str| -> Vec<usize> { replay[k].as_array().unwrap().iter().map(|x| x.as_u64().unwrap() as usize).collect() };
        format!("{:?}", execute(&replay["unit"], &v("senders"), &v("poll_order"), &v("complete_order")))
    }

    fn finish(&self, _tier: Tier, total: &mut UnitResult) -> Map<String, Value> {
        let all: String = total.classes.keys().cloned().collect();
        if !all.contains('a') || !all.contains('r') {
            total.machinery_errors.push("vacuous: both accepted and refused requests must occur".into());
        }
        Map::new()
    }
}
