//! C19 — per-peer rate limit admits no more than the quota.
//!
//! governor's clock (quanta) and its timer (futures-timer) cannot be replaced from outside, so this
//! check runs in REAL time. What is exhaustive is the operation sequence; the oracle is built so
//! that timing noise can only make it more permissive, never raise a false alarm.

use crate::report::{CheckMeta, UnitResult};
use crate::{Check, Tier};
use anemo::rpc::Status;
use anemo::types::response::StatusCode;
use anemo::{PeerId, Request, Response};
use anemo_tower::rate_limit::{RateLimitLayer, WaitMode, WAIT_NANOS_HEADER};
use bytes::Bytes;
use futures::future::BoxFuture;
use serde_json::{json, Map, Value};
use std::sync::{Arc, Mutex};
use std::task::{Context, Poll};
use std::time::{Duration, Instant};
use tower::{Layer, Service};

pub struct C19;

const PERIOD_MS: u64 = 40;
/// ops 0..ALPHABET are the alphabet of the sequence enumeration; the rest only occur in the
/// simultaneous-arrival units
const ALPHABET: usize = 6;

#[derive(Clone, Copy, Debug, PartialEq)]
enum Op {
    Req(u8),
    /// burst + 2 concurrent requests of peer P
    Flood,
    SleepHalf,
    SleepTwo,
    /// sleep until just (3 ms) before one period has elapsed
    SleepAlmostOne,
    /// a request of peer P/Q/R issued as its own task, not awaited before the next op
    Spawn(u8),
    /// the same, carrying a `timeout` header of 5 ms (a deadline of its own is no permit)
    SpawnT(u8),
}

fn op_json(o: &Op) -> Value {
    match o {
        Op::Req(0) => json!("req(P)"),
        Op::Req(_) => json!("req(Q)"),
        Op::Flood => json!("flood(P)"),
        Op::SleepHalf => json!("sleep(T/2)"),
        Op::SleepTwo => json!("sleep(2T)"),
        Op::SleepAlmostOne => json!("sleep(T-3ms)"),
        Op::Spawn(p) => json!(format!("spawn({})", ["P", "Q", "R"][*p as usize])),
        Op::SpawnT(p) => json!(format!("spawn({}, timeout 5 ms)", ["P", "Q", "R"][*p as usize])),
    }
}

const OPS: [Op; 11] = [Op::Req(0), Op::Req(1), Op::Flood, Op::SleepHalf, Op::SleepTwo, Op::SleepAlmostOne, Op::Spawn(0), Op::Spawn(1), Op::Spawn(2), Op::SpawnT(0), Op::SpawnT(1)];

/// identities that differ in their last byte only
fn near_id(last: u8) -> PeerId {
    let mut b = [0xcd; 32];
    b[31] = last;
    PeerId(b)
}

#[derive(Clone)]
struct Inner {
    admitted: Arc<Mutex<Vec<(u8, usize, Instant)>>>,
}

impl Service<Request<Bytes>> for Inner {
    type Response = Response<Bytes>;
    type Error = Status;
    type Future = BoxFuture<'static, Result<Response<Bytes>, Status>>;
    fn poll_ready(&mut self, _: &mut Context<'_>) -> Poll<Result<(), Status>> {
        Poll::Ready(Ok(()))
    }
    fn call(&mut self, req: Request<Bytes>) -> Self::Future {
        let id: usize = req.headers().get("id").unwrap().parse().unwrap();
        let p = req.peer_id().unwrap().0[31];
        self.admitted.lock().unwrap().push((p, id, Instant::now()));
        Box::pin(async move { Ok(Response::new(Bytes::new())) })
    }
}

struct Outcome {
    peer: u8,
    id: usize,
    called: Instant,
    returned: Instant,
    /// Ok(()) admitted, Err(Some(nanos)) refused with hint, Err(None) other failure
    result: Result<(), Option<(StatusCode, Option<String>)>>,
    /// conservative lower bound of tokens available when it was issued said it must be admitted
    must_admit: bool,
}

/// Named points of hook H8 at which the harness may stall the calling request for more than one
/// replenishment period (standing in for a preemption of the handler task at that place).
const POINTS: [&str; 2] = ["rate_limit::refused", "rate_limit::before_check"];

struct PointGuard;
impl Drop for PointGuard {
    fn drop(&mut self) {
        anemo::verif::set_named_point_hook(None);
    }
}

/// `stall`: (index into POINTS, k) = stall the k-th arrival at that point. Returns the shape and
/// how often each point was reached.
fn run_sequence(burst: u32, period_ms: u64, block: bool, seq: &[Op], stall: Option<(usize, usize)>) -> Result<(String, [usize; 2]), (String, String)> {
    let hits = Arc::new(Mutex::new([0usize; 2]));
    let hits2 = hits.clone();
    anemo::verif::set_named_point_hook(Some(Arc::new(move |tag: &'static str| {
        let Some(t) = POINTS.iter().position(|p| *p == tag) else { return };
        let k = {
            let mut h = hits2.lock().unwrap();
            h[t] += 1;
            h[t] - 1
        };
        if stall == Some((t, k)) {
            std::thread::sleep(Duration::from_millis(period_ms + 5));
        }
    })));
    let _guard = PointGuard;
    let rt = tokio::runtime::Builder::new_current_thread().enable_all().build().unwrap();
    let period = Duration::from_millis(period_ms);
    let quota = governor::Quota::with_period(period).unwrap().allow_burst(std::num::NonZeroU32::new(burst).unwrap());
    let admitted = Arc::new(Mutex::new(vec![]));
    let layer = RateLimitLayer::new(quota, if block { WaitMode::Block } else { WaitMode::ReturnError });
    let svc = layer.layer(Inner { admitted: admitted.clone() });
    let svc2 = layer.layer(Inner { admitted: admitted.clone() });
    let outcomes: Arc<Mutex<Vec<Outcome>>> = Arc::new(Mutex::new(vec![]));
    let t_begin = Instant::now();
    rt.block_on(async {
        let mut next_id = 0usize;
        // conservative lower bound of tokens available to each peer
        let mut low = [burst as i64; 3];
        let mut handles = vec![];
        for op in seq {
            match *op {
                Op::Req(p) => {
                    let id = next_id;
                    next_id += 1;
                    let must = low[p as usize] >= 1;
                    low[p as usize] = (low[p as usize] - 1).max(0);
                    let mut s = if id % 2 == 0 { svc.clone() } else { svc2.clone() };
                    let req = Request::new(Bytes::new()).with_header("id", id.to_string()).with_extension(near_id(p));
                    let called = Instant::now();
                    let r = s.call(req).await;
                    outcomes.lock().unwrap().push(Outcome { peer: p, id, called, returned: Instant::now(), result: r.map(|_| ()).map_err(|e| Some((e.status(), e.headers().get(WAIT_NANOS_HEADER).cloned()))), must_admit: must });
                }
                Op::Spawn(p) | Op::SpawnT(p) => {
                    let with_deadline = matches!(*op, Op::SpawnT(_));
                    let id = next_id;
                    next_id += 1;
                    let must = low[p as usize] >= 1;
                    low[p as usize] = (low[p as usize] - 1).max(0);
                    let mut s = if id % 2 == 0 { svc.clone() } else { svc2.clone() };
                    let outcomes = outcomes.clone();
                    handles.push(tokio::spawn(async move {
                        let mut req = Request::new(Bytes::new()).with_header("id", id.to_string()).with_extension(near_id(p));
                        if with_deadline {
                            req = req.with_timeout(Duration::from_millis(5));
                        }
                        let called = Instant::now();
                        let r = s.call(req).await;
                        outcomes.lock().unwrap().push(Outcome { peer: p, id, called, returned: Instant::now(), result: r.map(|_| ()).map_err(|e| Some((e.status(), e.headers().get(WAIT_NANOS_HEADER).cloned()))), must_admit: must });
                    }));
                }
                Op::Flood => {
                    for _ in 0..(burst + 2) {
                        let id = next_id;
                        next_id += 1;
                        let must = low[0] >= 1;
                        low[0] = (low[0] - 1).max(0);
                        let mut s = if id % 2 == 0 { svc.clone() } else { svc2.clone() };
                        let outcomes = outcomes.clone();
                        handles.push(tokio::spawn(async move {
                            let req = Request::new(Bytes::new()).with_header("id", id.to_string()).with_extension(near_id(0));
                            let called = Instant::now();
                            let r = s.call(req).await;
                            outcomes.lock().unwrap().push(Outcome { peer: 0, id, called, returned: Instant::now(), result: r.map(|_| ()).map_err(|e| Some((e.status(), e.headers().get(WAIT_NANOS_HEADER).cloned()))), must_admit: must });
                        }));
                    }
                    if !block {
                        // refusals are immediate: wait for them so that later ops see their effect
                        for h in handles.drain(..) {
                            let _ = h.await;
                        }
                    } else {
                        tokio::task::yield_now().await;
                    }
                }
                Op::SleepHalf => {
                    tokio::time::sleep(period / 2).await;
                    // half a period replenishes nothing for sure
                }
                Op::SleepAlmostOne => {
                    tokio::time::sleep(period - Duration::from_millis(3)).await;
                }
                Op::SleepTwo => {
                    tokio::time::sleep(period * 2 + Duration::from_millis(2)).await;
                    // in Block mode queued requests may consume what is replenished: no credit
                    if !block {
                        for l in low.iter_mut() {
                            *l = (*l + 2).min(burst as i64);
                        }
                    }
                }
            }
        }
        for h in handles {
            let _ = tokio::time::timeout(Duration::from_secs(5), h).await;
        }
    });
    let outcomes = outcomes.lock().unwrap();
    let adm = admitted.lock().unwrap().clone();
    let ctx = format!(
        "[burst {burst}, period {period_ms} ms, {}{}] sequence {:?}",
        if block { "Block" } else { "ReturnError" },
        match stall {
            Some((t, k)) => format!(", handler stalled {} ms at arrival #{k} at {}", period_ms + 5, POINTS[t]),
            None => String::new(),
        },
        seq.iter().map(op_json).collect::<Vec<_>>()
    );
    // 1. the quota: for every pair of admissions i <= j of one peer,
    //    #admitted(i..=j) <= burst + floor((admit_j - call_i) / period)
    for p in 0..3u8 {
        let mut mine: Vec<(Instant, Instant)> = adm
            .iter()
            .filter(|a| a.0 == p)
            .map(|a| {
                let o = outcomes.iter().find(|o| o.id == a.1);
                (o.map(|o| o.called).unwrap_or(a.2), a.2)
            })
            .collect();
        mine.sort_by_key(|m| m.1);
        for i in 0..mine.len() {
            for j in i..mine.len() {
                let n = (j - i + 1) as u128;
                let window = mine[j].1.saturating_duration_since(mine[i].0);
                let allowed = burst as u128 + window.as_nanos() / period.as_nanos();
                if n > allowed {
                    // governor's GCRA (third party) lets a key that has been idle long enough pass
                    // burst + 1 cells in one instant (a fresh key gets exactly burst). That precise
                    // excess is a listed finding; anything beyond the limiter's own arithmetic is
                    // reported under its own key.
                    let capacity = if i == 0 { burst as u128 } else { burst as u128 + 1 };
                    let governor_allows = capacity + window.as_nanos() / period.as_nanos();
                    let key = if n > governor_allows { "quota-exceeded" } else { "quota-exceeded-by-one-after-idle" };
                    return Err((key.into(), format!("{ctx}: peer {p} had {n} requests admitted within at most {} ms (window starting at its admission #{i}); the quota allows {allowed} (burst {burst} + replenishment)", window.as_millis())));
                }
            }
        }
    }
    let mut shape = String::new();
    for o in outcomes.iter() {
        let was_admitted = adm.iter().filter(|a| a.1 == o.id).count();
        match &o.result {
            Ok(()) => {
                shape.push('A');
                if was_admitted != 1 {
                    return Err(("admission-accounting".into(), format!("{ctx}: request {} succeeded but reached the service {was_admitted} times", o.id)));
                }
            }
            Err(Some((StatusCode::TooManyRequests, hint))) => {
                shape.push('r');
                if block {
                    return Err(("block-mode-refuses".into(), format!("{ctx}: request {} was refused in Block mode", o.id)));
                }
                if was_admitted != 0 {
                    return Err(("refused-but-served".into(), format!("{ctx}: request {} was refused but reached the service", o.id)));
                }
                match hint.as_ref().and_then(|h| h.parse::<u128>().ok()) {
                    Some(n) if n > 0 => {}
                    Some(0) => return Err(("zero-wait-hint".into(), format!("{ctx}: refusal of request {} carries wait-nanos 0, which is not a positive hint", o.id))),
                    other => return Err(("missing-wait-hint".into(), format!("{ctx}: refusal of request {} carries wait-nanos {other:?} (header {hint:?})", o.id))),
                }
                if o.must_admit {
                    return Err(("refused-within-quota".into(), format!("{ctx}: request {} of peer {} was refused although it was within the quota under every possible timing", o.id, o.peer)));
                }
            }
            Err(other) => return Err(("unexpected-error".into(), format!("{ctx}: request {} failed with {other:?}", o.id))),
        }
        let _ = (o.returned, t_begin);
    }
    if block {
        // everything is admitted in the end
        let issued: usize = seq.iter().map(|o| match o { Op::Req(_) | Op::Spawn(_) | Op::SpawnT(_) => 1, Op::Flood => burst as usize + 2, _ => 0 }).sum();
        if outcomes.len() != issued {
            return Err(("block-mode-stuck".into(), format!("{ctx}: {} of {issued} requests completed within 5 s of the end of the sequence", outcomes.len())));
        }
    }
    // quotas are per peer also while waiting (Block): a peer with a short queue is not held up
    // behind another peer's long one. Judged by ORDER only (robust against timing noise): with
    // all requests issued at once, peer q's last admission is due at (n_q - burst) periods, peer
    // p's at (n_p - burst); if q's queue is shorter by three or more, q must finish first.
    if block && seq.iter().all(|o| matches!(o, Op::Spawn(_))) && !seq.is_empty() {
        let count = |p: u8| seq.iter().filter(|o| **o == Op::Spawn(p)).count();
        let last_admit = |p: u8| adm.iter().filter(|a| a.0 == p).map(|a| a.2).max();
        for p in 0..3u8 {
            for q in 0..3u8 {
                if count(q) >= 1 && count(q) + 3 <= count(p) && count(q) > burst as usize {
                    if let (Some(lp), Some(lq)) = (last_admit(p), last_admit(q)) {
                        if lq > lp {
                            return Err(("peer-held-up-by-another-peers-queue".into(), format!("{ctx}: peer {q} (queue of {}) had its last request admitted {} ms after the last one of peer {p} (queue of {}): its wait depended on the other peer's backlog", count(q), lq.duration_since(lp).as_millis(), count(p))));
                        }
                    }
                }
            }
        }
    }
    let h = *hits.lock().unwrap();
    Ok((shape, h))
}

/// Free-running pass (sampled): the FIRST requests of a never-seen peer issued from several OS
/// threads at the same instant, quota `burst` per hour, ReturnError. Per-peer state that is
/// created on first use can only misbehave here. The oracle is exact: a fresh peer gets `burst`.
fn free_running(unit: &Value, out: &mut UnitResult) {
    let burst = unit["burst"].as_u64().unwrap() as u32;
    let racers = unit["racers"].as_u64().unwrap() as usize;
    let trials = unit["trials"].as_u64().unwrap() as usize;
    let quota = governor::Quota::with_period(Duration::from_secs(3600)).unwrap().allow_burst(std::num::NonZeroU32::new(burst).unwrap());
    // one layer for the whole unit: every trial uses a peer the limiter has never seen
    let layer = RateLimitLayer::new(quota, WaitMode::ReturnError);
    for trial in 0..trials {
        crate::pool::crumb(|| format!("free-running rate limit trial {trial}"));
        out.evaluations += 1;
        let admitted = Arc::new(Mutex::new(vec![]));
        let mut id = [0x77u8; 32];
        id[..8].copy_from_slice(&(trial as u64 + 1).to_le_bytes());
        id[31] = 0;
        let peer = anemo::PeerId(id);
        let gate = Arc::new(std::sync::atomic::AtomicUsize::new(0));
        let mut hs = vec![];
        for r in 0..racers {
            let mut svc = layer.layer(Inner { admitted: admitted.clone() });
            let gate = gate.clone();
            hs.push(std::thread::spawn(move || {
                gate.fetch_add(1, std::sync::atomic::Ordering::SeqCst);
                while gate.load(std::sync::atomic::Ordering::SeqCst) < racers {
                    std::hint::spin_loop();
                }
                let req = Request::new(Bytes::new()).with_header("id", r.to_string()).with_extension(peer);
                let rt = tokio::runtime::Builder::new_current_thread().enable_all().build().unwrap();
                rt.block_on(svc.call(req)).map(|_| ()).map_err(|e| e.status())
            }));
        }
        let results: Vec<Result<(), StatusCode>> = hs.into_iter().map(|h| h.join().unwrap()).collect();
        let ok = results.iter().filter(|r| r.is_ok()).count();
        let reached = admitted.lock().unwrap().len();
        let replay = json!({"unit": unit, "trial": trial});
        if ok > burst as usize || reached > burst as usize {
            out.violation("quota-exceeded", format!("[free-running, quota {burst} per hour, ReturnError] {racers} first requests of a never-seen peer issued on {racers} threads at once: {ok} were answered by the service and {reached} reached it"), replay.clone());
        }
        if ok < burst as usize {
            out.violation("refused-with-quota-left", format!("[free-running, quota {burst} per hour] only {ok} of {racers} simultaneous first requests of a fresh peer were admitted"), replay.clone());
        }
        if reached != ok {
            out.violation("refused-but-served", format!("[free-running] {reached} requests reached the service but {ok} callers got its answer"), replay.clone());
        }
        if results.iter().any(|r| matches!(r, Err(s) if *s != StatusCode::TooManyRequests)) {
            out.violation("wrong-refusal", format!("[free-running] {results:?}"), replay);
        }
        out.class("free-running first requests of a fresh peer");
    }
    out.count("free_running_trials", trials as u64);
}

/// ReturnError mode, burst 1: the permit is taken, then further requests of the same peer arrive at
/// chosen distances before the next permit (the whole interval for sub-millisecond quotas).
fn hint_unit(unit: &Value, out: &mut UnitResult) {
    let period = Duration::from_micros(unit["period_us"].as_u64().unwrap());
    let rt = tokio::runtime::Builder::new_current_thread().enable_all().build().unwrap();
    // how long before the next permit the over-quota request is made
    let mut before: Vec<Duration> = vec![period, period / 2];
    for us in [900u64, 400, 100, 20] {
        if Duration::from_micros(us) < period {
            before.push(Duration::from_micros(us));
        }
    }
    for lead in before {
        for attempt in 0..3 {
            out.evaluations += 1;
            let quota = governor::Quota::with_period(period).unwrap().allow_burst(std::num::NonZeroU32::new(1).unwrap());
            let admitted = Arc::new(Mutex::new(vec![]));
            let layer = RateLimitLayer::new(quota, WaitMode::ReturnError);
            let mut svc = layer.layer(Inner { admitted: admitted.clone() });
            let ctx = format!("[quota 1 per {period:?}, ReturnError; the permit is used, the next request comes {lead:?} before the next permit]");
            let r = rt.block_on(async {
                let t0 = Instant::now();
                let first = svc.call(Request::new(Bytes::new()).with_header("id", "0").with_extension(near_id(0))).await;
                if first.is_err() {
                    return Err(("refused-with-quota-left".to_string(), format!("{ctx}: the first request of a fresh limiter was refused")));
                }
                let target = t0 + period - lead;
                while Instant::now() < target {
                    std::hint::spin_loop();
                }
                let second = svc.call(Request::new(Bytes::new()).with_header("id", "1").with_extension(near_id(0))).await;
                match second {
                    Ok(_) => Ok("late"),
                    Err(e) if e.status() == StatusCode::TooManyRequests => match e.headers().get(WAIT_NANOS_HEADER).and_then(|h| h.parse::<u128>().ok()) {
                        Some(0) => Err(("zero-wait-hint".to_string(), format!("{ctx}: the refusal carries wait-nanos 0, which is not a positive hint"))),
                        Some(n) if n > period.as_nanos() + 1_000_000 => Err(("wait-hint-too-long".to_string(), format!("{ctx}: the refusal carries wait-nanos {n}, more than one replenishment interval"))),
                        Some(_) => Ok("refused"),
                        None => Err(("no-wait-hint".to_string(), format!("{ctx}: the refusal carries no parsable wait-nanos header: {:?}", e.headers()))),
                    },
                    Err(e) => Err(("wrong-refusal".to_string(), format!("{ctx}: unexpected failure {:?}", e.status()))),
                }
            });
            match r {
                Ok(c) => {
                    out.class(format!("hint {c}"));
                    if c == "refused" {
                        break;
                    }
                    let _ = attempt;
                }
                Err((k, m)) => {
                    out.violation(k, m, json!({"unit": unit}));
                    break;
                }
            }
        }
    }
}

impl Check for C19 {
    fn meta(&self, _tier: Tier) -> CheckMeta {
        CheckMeta {
            property: "C19",
            level: "exploration",
            rule: "every operation sequence over {req(P), req(Q), flood = burst+2 concurrent req(P), sleep(T/2), sleep(2T), sleep(T-3ms)} up to length 4 (quick) / 5 (thorough) x quota (burst 1 or 3, period 40 ms) x {Block, ReturnError}, plus every arrival order of 2-5 requests of each of 2-3 peers all in flight at once on a fresh limiter (simultaneous arrivals; ReturnError orders also with a stall at each refusal), through two service instances of one layer, executed in REAL time (timing sampled once per sequence), plus one deviation for ReturnError sequences up to length depth-1 / depth-2: the handler is stalled for more than a period at each arrival in turn at the hooked points after / before the limiter check (H8); oracle: for every pair of one peer's admissions the count is <= burst + floor(window/period) with the window over-approximated from call/admit brackets; refusals carry wait-nanos > 0 and never reach the service; requests within quota under every timing must be admitted; Block never refuses; in Block mode a peer with a queue shorter by three or more finishes before the other peer (order only); distinct = distinct admit/refuse shapes".into(),
            assumptions: vec![
                "real time: governor's quanta clock and futures-timer are not interceptable; the oracle uses only inequalities that hold under arbitrary scheduling delay".into(),
                "each sequence is executed once: interleavings of the concurrent flood are sampled, not enumerated".into(),
                "a supplementary FREE-RUNNING pass (4 / 8 OS threads issuing the first requests of a never-seen peer at once, quota 1 / 3 per hour, 300 | 3000 trials, exact oracle) samples races in per-peer state created on first use; counted under free_running_trials, not part of the exhaustive claim".into(),
            ],
            exhaustive: true,
        }
    }

    fn units(&self, tier: Tier) -> Vec<Value> {
        let mut u = vec![];
        let mut quotas = vec![(1u32, PERIOD_MS), (3, PERIOD_MS)];
        if tier == Tier::Thorough {
            quotas.push((2, 25));
        }
        for (burst, period) in quotas.iter().copied() {
            for block in [false, true] {
                for a in 0..ALPHABET {
                    for b in 0..ALPHABET {
                        u.push(json!({"kind":"sequences","burst":burst,"period":period,"block":block,"prefix":[a,b],"depth":tier.pick(4, 5)}));
                    }
                }
            }
        }
        // simultaneous arrivals: every arrival order of `per_peer` requests of each of `peers`
        // peers, all in flight at once on a fresh limiter
        let mut arr = vec![(1u32, 2usize, 3usize), (1, 3, 2), (3, 2, 4)];
        if tier == Tier::Thorough {
            arr.extend([(1, 2, 4), (2, 3, 3), (3, 2, 5), (1, 3, 3)]);
        }
        // asymmetric backlogs (Block): peer P queues burst + 5 requests, then peer Q burst + 1
        for burst in [1u32, 3] {
            u.push(json!({"kind":"asymmetric","burst":burst,"period":PERIOD_MS,"block":true}));
            for block in [true, false] {
                u.push(json!({"kind":"deadline","burst":burst,"period":PERIOD_MS,"block":block}));
            }
        }
        // refusals close to the next permit, and quotas that replenish faster than a millisecond:
        // the hint stays positive (and never exceeds one replenishment interval)
        for (burst, racers) in [(1u32, 4usize), (3, 8)] {
            u.push(json!({"kind":"free-running","burst":burst,"racers":racers,"trials":tier.pick(150, 1500)}));
        }
        for period_us in [300u64, 500, 900, 1_500, 40_000] {
            u.push(json!({"kind":"hint","period_us":period_us}));
        }
        for (burst, peers, per_peer) in arr {
            for block in [false, true] {
                for first in 0..peers {
                    u.push(json!({"kind":"arrivals","burst":burst,"period":PERIOD_MS,"block":block,"peers":peers,"per_peer":per_peer,"first":first}));
                }
            }
        }
        u
    }

    fn run_unit(&self, _tier: Tier, unit: &Value, out: &mut UnitResult) {
        if unit["kind"] == "hint" {
            hint_unit(unit, out);
            return;
        }
        if unit["kind"] == "free-running" {
            free_running(unit, out);
            return;
        }
        let burst = unit["burst"].as_u64().unwrap() as u32;
        let block = unit["block"].as_bool().unwrap();
        let period = unit["period"].as_u64().unwrap();
        if unit["kind"] == "deadline" {
            // the burst is used up, then over-quota requests arrive that carry a deadline of their own
            for peer in [0u8, 1] {
                let mut seq: Vec<Op> = vec![Op::Spawn(peer); burst as usize];
                seq.extend(vec![Op::SpawnT(peer); 3]);
                let seq_idx = seq.iter().map(|o| OPS.iter().position(|x| x == o).unwrap()).collect::<Vec<_>>();
                out.evaluations += 1;
                match run_sequence(burst, period, block, &seq, None) {
                    Ok(_) => out.class(format!("deadline {}", if block { "block" } else { "error" })),
                    Err((k, m)) => out.violation(k, m, json!({"unit": {"burst":burst,"period":period,"block":block}, "sequence": seq_idx})),
                }
            }
            return;
        }
        if unit["kind"] == "asymmetric" {
            for (first, second) in [(0u8, 1u8), (1, 0)] {
                for extra in [1usize, 2] {
                    let mut seq: Vec<Op> = vec![Op::Spawn(first); burst as usize + 5];
                    seq.extend(vec![Op::Spawn(second); burst as usize + extra]);
                    let seq_idx = seq.iter().map(|o| OPS.iter().position(|x| x == o).unwrap()).collect::<Vec<_>>();
                    crate::pool::crumb(|| "rate limiter asymmetric backlogs".to_string());
                    out.evaluations += 1;
                    match run_sequence(burst, period, true, &seq, None) {
                        Ok(_) => out.class("asymmetric block"),
                        Err((k, m)) => out.violation(k, m, json!({"unit": {"burst":burst,"period":period,"block":true}, "sequence": seq_idx})),
                    }
                }
            }
            return;
        }
        if unit["kind"] == "arrivals" {
            let peers = unit["peers"].as_u64().unwrap() as usize;
            let per_peer = unit["per_peer"].as_u64().unwrap() as usize;
            let first = unit["first"].as_u64().unwrap() as u8;
            // all distinct orders of the multiset, starting with `first`
            fn orders(left: &mut Vec<usize>, cur: &mut Vec<u8>, out: &mut Vec<Vec<u8>>) {
                if left.iter().all(|l| *l == 0) {
                    out.push(cur.clone());
                    return;
                }
                for p in 0..left.len() {
                    if left[p] > 0 {
                        left[p] -= 1;
                        cur.push(p as u8);
                        orders(left, cur, out);
                        cur.pop();
                        left[p] += 1;
                    }
                }
            }
            let mut left = vec![per_peer; peers];
            left[first as usize] -= 1;
            let mut all = vec![];
            orders(&mut left, &mut vec![first], &mut all);
            for order in all {
                let seq: Vec<Op> = order.iter().map(|p| Op::Spawn(*p)).collect();
                let seq_idx = seq.iter().map(|o| OPS.iter().position(|x| x == o).unwrap()).collect::<Vec<_>>();
                crate::pool::crumb(|| format!("rate limiter simultaneous arrivals {order:?}"));
                out.evaluations += 1;
                out.count("arrival_orders", 1);
                let mut hits = [0usize; 2];
                match run_sequence(burst, period, block, &seq, None) {
                    Ok((shape, h)) => {
                        hits = h;
                        // in ReturnError mode on a fresh limiter the verdicts are determined:
                        // the first `burst` arrivals of each peer pass (must_admit), the others
                        // are refused unless the run took longer than a period
                        out.class(format!("arrivals {} {}", if block { "block" } else { "error" }, shape.chars().filter(|c| *c == 'A').count()))
                    }
                    Err((k, m)) => out.violation(k, m, json!({"unit": {"burst":burst,"period":period,"block":block}, "sequence": seq_idx})),
                }
                if !block {
                    for k in 0..hits[0] {
                        out.evaluations += 1;
                        out.count("stalled_executions", 1);
                        match run_sequence(burst, period, block, &seq, Some((0, k))) {
                            Ok(_) => out.class("arrivals error+stall"),
                            Err((key, m)) => out.violation(key, m, json!({"unit": {"burst":burst,"period":period,"block":block}, "sequence": seq_idx, "stall": [0, k]})),
                        }
                    }
                }
                if out.samples.len() < 2 {
                    out.sample(json!({"arrival_order": order, "burst": burst, "block": block}));
                }
            }
            return;
        }
        let depth = unit["depth"].as_u64().unwrap() as usize;
        let prefix: Vec<Op> = unit["prefix"].as_array().unwrap().iter().map(|i| OPS[i.as_u64().unwrap() as usize]).collect();
        let mut stack = vec![prefix];
        while let Some(seq) = stack.pop() {
            // sequences of sleeps only, or ending in a sleep, tell nothing new
            if !matches!(seq.last(), Some(Op::SleepHalf | Op::SleepTwo | Op::SleepAlmostOne)) {
                crate::pool::crumb(|| format!("rate limiter sequence {:?}", seq.iter().map(op_json).collect::<Vec<_>>()));
                out.evaluations += 1;
                let seq_idx = seq.iter().map(|o| OPS.iter().position(|x| x == o).unwrap()).collect::<Vec<_>>();
                let mut hits = [0usize; 2];
                match run_sequence(burst, period, block, &seq, None) {
                    Ok((shape, h)) => {
                        hits = h;
                        out.class(format!("{} {}", if block { "block" } else { "error" }, shape.chars().take(8).collect::<String>()))
                    }
                    Err((k, m)) => out.violation(k, m, json!({"unit": {"burst":burst,"period":period,"block":block}, "sequence": seq_idx})),
                }
                // one deviation: the handler is stalled for more than a period at one arrival at
                // one of the hooked points (every arrival in turn)
                for (t, max_len) in [(0usize, depth - 1), (1usize, depth - 2)] {
                    if block || seq.len() > max_len {
                        continue;
                    }
                    for k in 0..hits[t] {
                        crate::pool::crumb(|| format!("rate limiter sequence {:?} stalled at {} #{k}", seq.iter().map(op_json).collect::<Vec<_>>(), POINTS[t]));
                        out.evaluations += 1;
                        out.count("stalled_executions", 1);
                        match run_sequence(burst, period, block, &seq, Some((t, k))) {
                            Ok((shape, _)) => out.class(format!("error+stall {}", shape.chars().take(8).collect::<String>())),
                            Err((key, m)) => out.violation(key, m, json!({"unit": {"burst":burst,"period":period,"block":block}, "sequence": seq_idx, "stall": [t, k]})),
                        }
                    }
                }
                if out.samples.is_empty() && seq.len() == depth {
                    out.sample(json!(seq.iter().map(op_json).collect::<Vec<_>>()));
                }
            }
            if seq.len() < depth {
                for o in OPS[..ALPHABET].iter().rev() {
                    let mut n = seq.clone();
                    n.push(*o);
                    stack.push(n);
                }
            }
        }
    }

    fn replay(&self, replay: &Value) -> String {
        if replay["unit"]["kind"] == "free-running" {
            let mut out = UnitResult::default();
            free_running(&replay["unit"], &mut out);
            return format!("free-running unit re-run (timing is not reproducible): {:?} {:?}", out.classes, out.violations.iter().map(|v| &v.message).collect::<Vec<_>>());
        }
        if replay["unit"]["kind"] == "hint" {
            let mut out = UnitResult::default();
            hint_unit(&replay["unit"], &mut out);
            return format!("unit {}\nviolations: {:?}\nclasses: {:?}", replay["unit"], out.violations.iter().map(|v| (&v.key, &v.message)).collect::<Vec<_>>(), out.classes);
        }
        let seq: Vec<Op> = replay["sequence"].as_array().unwrap().iter().map(|i| OPS[i.as_u64().unwrap() as usize]).collect();
        let stall = replay.get("stall").and_then(|s| s.as_array()).map(|s| (s[0].as_u64().unwrap() as usize, s[1].as_u64().unwrap() as usize));
        let r = run_sequence(replay["unit"]["burst"].as_u64().unwrap() as u32, replay["unit"]["period"].as_u64().unwrap_or(PERIOD_MS), replay["unit"]["block"].as_bool().unwrap(), &seq, stall);
        format!("sequence {:?}\nresult {r:?}\n(real-time run: timing differs from the recorded one)", seq.iter().map(op_json).collect::<Vec<_>>())
    }

    fn finish(&self, _tier: Tier, total: &mut UnitResult) -> Map<String, Value> {
        if !total.classes.keys().any(|k| k.starts_with("error") && k.contains('r')) || !total.classes.keys().any(|k| k.starts_with("block")) {
            total.machinery_errors.push("vacuous: refusals (ReturnError) and Block runs must both occur".into());
        }
        Map::new()
    }
}
