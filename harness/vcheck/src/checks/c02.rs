//! C02 — RPC delivery integrity, pairing and at-most-once handling.

use crate::explore::permutations;
use crate::report::{CheckMeta, UnitResult};
use crate::simrun::{explore_sim, sim_exec, Judged};
use crate::world::*;
use crate::{Check, Tier};
use futures::FutureExt;
use serde_json::{json, Map, Value};
use std::sync::Arc;

pub struct C02;

#[derive(Clone, Debug)]
pub struct Obs {
    pub log: Vec<String>,
    pub violations: Vec<(String, String)>,
    pub oks: usize,
    pub errs: usize,
    pub completion_order: Vec<String>,
    pub deviations_possible: bool,
}

const SIZES: [usize; 11] = [0, 1, 1199, 1200, 1201, 8191, 8193, 65_535, 131_073, (1 << 20) + 3, 3 << 20];

/// The RPCs of a unit: (direction a->b?, spec, gate name)
fn specs(unit: &Value) -> Vec<(bool, RpcSpec, Option<String>)> {
    match unit["kind"].as_str().unwrap() {
        "perm" => {
            let mut v = vec![];
            for (i, (ab, route, blen)) in [
                (true, "/svc/alpha", 3usize),
                (true, "/svc/beta", 700),
                (false, "/svc/alpha", 5),
                (false, "/x", 1300),
            ]
            .into_iter()
            .enumerate()
            {
                let id = format!("r{i}");
                let s = RpcSpec::new(&id)
                    .route(route)
                    .header("gate", format!("g{i}"))
                    .header(&format!("h-k{i}"), format!("v{i}"))
                    .header("resp-len", format!("{}", 10 + 400 * i))
                    .body(pattern_body(100 + i as u64, blen));
                v.push((ab, s, Some(format!("g{i}"))));
            }
            v
        }
        "size" => {
            let req = unit["req_len"].as_u64().unwrap() as usize;
            let resp = unit["resp_len"].as_u64().unwrap() as usize;
            let main = RpcSpec::new("main")
                .route("/size")
                .header("resp-len", format!("{resp}"))
                .body(pattern_body(7, req));
            let sib = RpcSpec::new("sib")
                .route("/sibling")
                .header("h-s", "1")
                .body(pattern_body(9, 33));
            let back = RpcSpec::new("back").route("/back").body(pattern_body(11, 2000));
            vec![(true, main, None), (true, sib, None), (false, back, None)]
        }
        "hdr" => {
            let variant = unit["variant"].as_u64().unwrap();
            let mut s = RpcSpec::new("hdr").route("/h").body(pattern_body(3, 10));
            match variant {
                0 => {}
                1 => s = s.header("h-one", "1"),
                2 => {
                    for i in 0..16 {
                        s = s.header(&format!("h-{i:02}"), format!("value-{i}"));
                    }
                }
                3 => s = s.header("h-big", "x".repeat(64 * 1024)),
                4 => s = s.header("h-", "").header("h-empty-value", ""),
                // names differing only in letter case are different names
                6 => s = s.header("h-Shard", "upper").header("h-shard", "lower").header("X-Request-Tag", "t").header("ETag", "e"),
                7 => s = s.header("h-É", "upper").header("h-é", "lower").header(" h-space ", " v ").header("TIMEOUT", "abc"),
                // a timeout header longer / shorter than the defaults of both ends (unit "timeouts")
                10 => s = s.header("timeout", "30000000000").header("h-one", "1"),
                11 => s = s.header("timeout", "2000000000").header("h-one", "1"),
                _ => s = s.header("h-utf8-é", "ü\u{0}\n"),
            }
            let odd_route = match variant {
                0 => "",
                1 => "/a b/é",
                2 => "no-leading-slash",
                _ => "/h",
            };
            s = s.route(odd_route);
            let other = RpcSpec::new("other").route("/o").header("h-o", "o").body(pattern_body(5, 999));
            if variant == 8 || variant == 9 {
                // several requests on ONE route whose header maps are rearrangements of each other:
                // the same names with the values exchanged, and one value repeated under two names
                let ab = unit["ab"].as_bool().unwrap();
                // (the request id the harness tracks is itself a header, so it takes part: the
                // same names with the values exchanged between `id` and `h-peer`, and one value
                // repeated under both names)
                let mk = |id: &str, peer: &str, n: u64| RpcSpec::new(id).route("/same").header("h-peer", peer).body(pattern_body(n, 20 + n as usize));
                return if variant == 8 {
                    vec![(ab, mk("alice", "bob", 1), None), (ab, mk("bob", "alice", 2), None), (!ab, mk("carol", "dave", 3), None), (!ab, mk("dave", "carol", 4), None)]
                } else {
                    vec![(ab, mk("t1", "t1", 1), None), (ab, mk("t2", "t2", 2), None), (!ab, mk("t3", "t3", 3), None), (ab, mk("t4", "t4", 4), None)]
                };
            }
            vec![(unit["ab"].as_bool().unwrap(), s, None), (!unit["ab"].as_bool().unwrap(), other, None)]
        }
        k => panic!("unknown unit kind {k}"),
    }
}

const FAIL_MODES: [&str; 16] = [
    "caller-abandons-p1",
    "caller-abandons-p2",
    "caller-abandons-p3",
    "caller-abandons-p4",
    "caller-abandons-100",
    "caller-abandons-500",
    "caller-abandons-1100",
    "caller-abandons-2500",
    "resp-over-callee-limit",
    "resp-over-caller-limit",
    "req-over-callee-limit",
    "caller-timeout",
    "callee-timeout",
    "callee-disconnects",
    "caller-disconnects",
    "callee-shuts-down",
];

/// RPCs that fail at various points (before, inside, after the handler): whatever the outcome,
/// a request reaches a handler at most once and a success carries the right response.
async fn scenario_fail(sim: Arc<Sim>, unit: Value) -> Obs {
    let mode = unit["mode"].as_str().unwrap().to_string();
    let mut ca = anemo::Config::default();
    let mut cb = anemo::Config::default();
    match mode.as_str() {
        "resp-over-callee-limit" | "req-over-callee-limit" => cb.max_frame_size = Some(2000),
        "resp-over-caller-limit" => ca.max_frame_size = Some(1000),
        "caller-timeout" => ca.outbound_request_timeout_ms = Some(50),
        "callee-timeout" => cb.inbound_request_timeout_ms = Some(50),
        _ => {}
    }
    let a = sim.start(&NodeSpec::new(1).config(ca)).unwrap();
    let b = sim.start(&NodeSpec::new(2).config(cb)).unwrap();
    let (_na, nb) = (sim.node_of(&a), sim.node_of(&b));
    let mut log = vec![];
    let mut violations = vec![];
    if let Err(e) = a.connect(b.local_addr()).await {
        violations.push(("setup".to_string(), format!("connect failed without faults: {e}")));
        return Obs { log, violations, oks: 0, errs: 0, completion_order: vec![], deviations_possible: false };
    }
    tokio::time::sleep(ms(50)).await;
    let budget = unit["fate_budget"].as_u64().unwrap_or(0) as usize;
    sim.fabric.set_fate_window(0, budget);
    let main = match mode.as_str() {
        "resp-over-callee-limit" => RpcSpec::new("main").route("/f").header("resp-len", "2500"),
        "resp-over-caller-limit" => RpcSpec::new("main").route("/f").header("resp-len", "1500"),
        "req-over-callee-limit" => RpcSpec::new("main").route("/f").body(pattern_body(1, 2500)),
        "caller-timeout" | "callee-timeout" => RpcSpec::new("main").route("/f").header("sleep-ms", "200"),
        _ => RpcSpec::new("main").route("/f").header("gate", "g").body(pattern_body(2, 100)),
    };
    let before = RpcSpec::new("before").route("/s").body(pattern_body(3, 50));
    let after = RpcSpec::new("after").route("/s").body(pattern_body(4, 60));
    let mut outcomes: Vec<(RpcSpec, RpcOutcome)> = vec![];
    let horizon = |sim: Arc<Sim>, net: anemo::Network, to: anemo::PeerId, spec: RpcSpec| async move {
        match tokio::time::timeout(ms(15_000), do_rpc(&sim, &net, to, &spec)).await {
            Ok(o) => (spec, o),
            Err(_) => {
                let o = RpcOutcome { id: spec.id.clone(), result: Err("harness horizon (15 s) reached".into()), t_start_us: 0, t_end_us: sim.now_us() };
                (spec, o)
            }
        }
    };
    outcomes.push(horizon(sim.clone(), a.clone(), b.peer_id(), before).await);
    if let Some(us) = mode.strip_prefix("caller-abandons-") {
        // six calls in a row are given up by the caller `us` microseconds after they were issued
        // (0 = after the first poll): the request and the cancellation reach the callee close
        // together, so its answer may be ready just as the cancellation is noticed. Whatever the
        // callee did with those answers, the next call gets its own.
        // pN: at the N-th poll, the other tasks having had one turn between polls (for the N at
        // which the request is written, request and cancellation leave in the same datagram)
        let polls: usize = us.strip_prefix('p').map(|n| n.parse().unwrap()).unwrap_or(0);
        let us: u64 = if polls > 0 { 0 } else { us.parse().unwrap() };
        for k in 0..6 {
            let spec = RpcSpec::new(&format!("abandoned{k}")).route("/f").header("resp-len", "300").header(&format!("only-{k}"), "x").body(pattern_body(10 + k as u64, 40 + k));
            let (sim2, a2, to) = (sim.clone(), a.clone(), b.peer_id());
            let sp = spec.clone();
            let fut = async move { do_rpc(&sim2, &a2, to, &sp).await };
            let mut fut = Box::pin(fut);
            if polls > 0 {
                // N - 1 times (poll, let every other ready task run once), then one more poll and
                // the call is dropped in the same scheduler turn
                for n in 0..polls {
                    if futures::poll!(fut.as_mut()).is_ready() {
                        break;
                    }
                    if n + 1 < polls {
                        tokio::task::yield_now().await;
                    }
                }
            } else {
                let _ = tokio::time::timeout(std::time::Duration::from_micros(us), fut.as_mut()).await;
            }
            drop(fut);
            log.push(format!("[{mode}] rpc {} given up by the caller", spec.id));
            if k % 2 == 1 {
                tokio::time::sleep(ms(3)).await;
            }
        }
        tokio::time::sleep(ms(20)).await;
        for k in 0..6 {
            let id = format!("abandoned{k}");
            log.push(format!("[{mode}] rpc {id}: handler started {} time(s), completed={}", sim.svc.started(&id), sim.svc.completed(&id)));
        }
        outcomes.push(horizon(sim.clone(), a.clone(), b.peer_id(), after.clone()).await);
        let after2 = RpcSpec::new("after2").route("/s").header("resp-len", "10").body(pattern_body(5, 70));
        outcomes.push(horizon(sim.clone(), a.clone(), b.peer_id(), after2).await);
    }
    let abandon_mode = mode.starts_with("caller-abandons-");
    let h = if abandon_mode { tokio::spawn(horizon(sim.clone(), a.clone(), b.peer_id(), RpcSpec::new("main").route("/s"))) } else { tokio::spawn(horizon(sim.clone(), a.clone(), b.peer_id(), main)) };
    match mode.as_str() {
        "callee-disconnects" => {
            tokio::time::sleep(ms(30)).await;
            let _ = b.disconnect(a.peer_id());
            tokio::time::sleep(ms(5)).await;
            sim.svc.release("g");
        }
        "caller-disconnects" => {
            tokio::time::sleep(ms(30)).await;
            let _ = a.disconnect(b.peer_id());
            tokio::time::sleep(ms(5)).await;
            sim.svc.release("g");
        }
        "callee-shuts-down" => {
            tokio::time::sleep(ms(30)).await;
            let b2 = b.clone();
            tokio::spawn(async move { let _ = b2.shutdown().await; });
            tokio::time::sleep(ms(5)).await;
            sim.svc.release("g");
        }
        _ => {}
    }
    outcomes.push(h.await.unwrap());
    // the connection may be gone by design in the disconnect modes: re-dial before the follow-up
    if mode.ends_with("disconnects") {
        tokio::time::sleep(ms(100)).await;
        let _ = a.connect(b.local_addr()).await;
    }
    if mode != "callee-shuts-down" && !abandon_mode {
        outcomes.push(horizon(sim.clone(), a.clone(), b.peer_id(), after).await);
    }
    sim.fabric.set_fate_budget(0);
    tokio::time::sleep(ms(500)).await;
    let (mut oks, mut errs) = (0, 0);
    for (spec, o) in &outcomes {
        match &o.result {
            Ok(ok) => {
                oks += 1;
                // a RequestTimeout answer is produced by the timeout layer, not by the handler
                let timeout_answer = mode == "callee-timeout" && spec.id == "main" && ok.status == anemo::types::response::StatusCode::RequestTimeout;
                if !timeout_answer {
                    if let Err(e) = check_response(spec, ok, b.peer_id()) {
                        violations.push(("wrong-response".to_string(), format!("[{mode}] {e}")));
                    }
                }
                log.push(format!("[{mode}] rpc {} ok status={:?}", spec.id, ok.status));
            }
            Err(e) => {
                errs += 1;
                log.push(format!("[{mode}] rpc {} err {}", spec.id, e.chars().take(80).collect::<String>()));
            }
        }
        match check_seen(&sim, spec, nb, a.peer_id()) {
            Ok(n) => {
                if o.result.is_ok() && n != 1 && !(mode == "callee-timeout" && spec.id == "main") {
                    violations.push(("phantom-response".to_string(), format!("[{mode}] rpc {} succeeded but its request reached a handler {n} times", spec.id)));
                }
            }
            Err(e) => violations.push(("request-delivery".to_string(), format!("[{mode}] {e}"))),
        }
        let starts = sim.svc.started(&spec.id);
        if starts > 1 {
            violations.push(("request-delivery".to_string(), format!("[{mode}] request {} started a handler {starts} times", spec.id)));
        }
    }
    let deviations_possible = budget > 0;
    // sanity of the scenario itself: without faults the surrounding RPCs must succeed
    Obs { log, violations, oks, errs, completion_order: vec![mode], deviations_possible }
}

async fn scenario(sim: Arc<Sim>, unit: Value) -> Obs {
    if unit["kind"] == "fail" {
        return scenario_fail(sim, unit).await;
    }
    // optionally both ends run with request-timeout defaults (5 s inbound, 7 s outbound): a
    // deadline in force must not change what is delivered
    let mk_cfg = || {
        let mut c = anemo::Config::default();
        if unit["timeouts"].as_bool().unwrap_or(false) {
            c.inbound_request_timeout_ms = Some(5_000);
            c.outbound_request_timeout_ms = Some(7_000);
        }
        c
    };
    let a = sim.start(&NodeSpec::new(1).config(mk_cfg())).unwrap();
    let b = sim.start(&NodeSpec::new(2).config(mk_cfg())).unwrap();
    let (na, nb) = (sim.node_of(&a), sim.node_of(&b));
    let mut log = vec![];
    let mut violations = vec![];
    if let Err(e) = a.connect(b.local_addr()).await {
        return Obs {
            log: vec![format!("connect failed: {e}")],
            violations: vec![("setup".into(), format!("connect failed without faults: {e}"))],
            oks: 0,
            errs: 0,
            completion_order: vec![],
            deviations_possible: false,
        };
    }
    // let the handshake tail settle so that choice points only cover RPC traffic
    tokio::time::sleep(ms(50)).await;
    let specs = specs(&unit);
    let budget = unit["fate_budget"].as_u64().unwrap_or(0) as usize;
    sim.fabric.set_fate_window(unit["fate_skip"].as_u64().unwrap_or(0) as usize, budget);
    let mut handles = vec![];
    for (ab, spec, _) in specs.iter().cloned() {
        let (from, to) = if ab { (a.clone(), b.peer_id()) } else { (b.clone(), a.peer_id()) };
        let sim2 = sim.clone();
        handles.push(tokio::spawn(async move {
            let r = tokio::time::timeout(ms(25_000), do_rpc(&sim2, &from, to, &spec)).await;
            match r {
                Ok(o) => o,
                Err(_) => RpcOutcome {
                    id: spec.id.clone(),
                    result: Err("harness horizon (25 s) reached".into()),
                    t_start_us: 0,
                    t_end_us: sim2.now_us(),
                },
            }
        }));
    }
    // release gates in the order given by the unit, 2 ms apart, after requests had time to arrive
    if let Some(order) = unit["order"].as_array() {
        tokio::time::sleep(ms(100)).await;
        for k in order {
            let k = k.as_u64().unwrap() as usize;
            if let Some(g) = &specs[k].2 {
                sim.svc.release(g);
            }
            tokio::time::sleep(ms(2)).await;
        }
    }
    let mut outcomes = vec![];
    for h in handles {
        outcomes.push(h.await.unwrap());
    }
    sim.fabric.set_fate_budget(0);
    let mut oks = 0;
    let mut errs = 0;
    let mut by_end: Vec<(u64, String)> = vec![];
    for ((ab, spec, _), o) in specs.iter().zip(outcomes.iter()) {
        let (callee, callee_node, caller) = if *ab {
            (b.peer_id(), nb, a.peer_id())
        } else {
            (a.peer_id(), na, b.peer_id())
        };
        match &o.result {
            Ok(ok) => {
                oks += 1;
                by_end.push((o.t_end_us, spec.id.clone()));
                if let Err(e) = check_response(spec, ok, callee) {
                    violations.push(("wrong-response".to_string(), e));
                }
                log.push(format!(
                    "rpc {} ok status={:?} body={}B t={}..{}us",
                    spec.id,
                    ok.status,
                    ok.body.len(),
                    o.t_start_us,
                    o.t_end_us
                ));
            }
            Err(e) => {
                errs += 1;
                log.push(format!("rpc {} err {e}", spec.id));
            }
        }
        match check_seen(&sim, spec, callee_node, caller) {
            Ok(n) => {
                if o.result.is_ok() && n != 1 {
                    violations.push((
                        "phantom-response".to_string(),
                        format!("rpc {} succeeded but its request reached a handler {n} times", spec.id),
                    ));
                }
            }
            Err(e) => violations.push(("request-delivery".to_string(), e)),
        }
    }
    // no request may show up that nobody sent
    {
        let reqs = sim.svc.requests.lock().unwrap();
        for r in reqs.iter() {
            let known = specs.iter().any(|(_, s, _)| Some(&s.id) == r.headers.get("id"));
            if !known {
                violations.push((
                    "request-delivery".to_string(),
                    format!("a handler saw a request nobody sent: route {:?} headers {:?}", r.route, abbreviate_map(&r.headers)),
                ));
            }
        }
    }
    by_end.sort();
    Obs {
        log,
        violations,
        oks,
        errs,
        completion_order: by_end.into_iter().map(|(_, i)| i).collect(),
        deviations_possible: budget > 0,
    }
}

fn judge(o: &Obs, choices: &[u32]) -> Judged {
    let mut v = o.violations.clone();
    let deviations = choices.iter().filter(|c| **c != 0).count();
    let fail_mode = o.completion_order.len() == 1 && FAIL_MODES.contains(&o.completion_order[0].as_str());
    if fail_mode && deviations == 0 {
        for l in &o.log {
            if (l.contains("rpc before err") || l.contains("rpc after err")) && !l.contains("callee-shuts-down") {
                v.push(("rpc-failed-without-faults".to_string(), format!("a well-formed RPC next to a failing one failed: {l}")));
            }
        }
    }
    if !fail_mode && deviations == 0 && o.errs > 0 {
        v.push((
            "rpc-failed-without-faults".to_string(),
            format!("{} RPC(s) failed although no fault was injected: {:?}", o.errs, o.log),
        ));
    }
    Judged {
        class: format!("ok={} err={} order={:?}", o.oks, o.errs, o.completion_order),
        violations: v,
        sample: Some(json!(o.log)),
    }
}

// ------------------------------------------------------------------------------------------
// free-running pass: a handler inside a NON-YIELDING section when its caller gives the call up.
// On the single thread of the simulation the cancellation cannot arrive while such a section is
// in progress, so this one behaviour is run on a real multi-thread runtime, real sockets and real
// time. Sound by margin: the handler blocks 300 ms, the caller leaves after 100 ms, the next calls
// come 500 ms later. Whatever the responder did with the answer nobody waits for, the next
// answers are exactly what their handlers produced.
// ------------------------------------------------------------------------------------------
fn free_running(unit: &Value, out: &mut UnitResult) {
    use anemo::types::response::StatusCode;
    use anemo::{Network, Request, Response};
    use bytes::Bytes;
    use std::time::Duration;
    let how = unit["how"].as_str().unwrap().to_string();
    out.evaluations += 1;
    let rt = tokio::runtime::Builder::new_multi_thread().worker_threads(3).enable_all().build().unwrap();
    let how2 = how.clone();
    let verdict: Result<String, (String, String)> = rt.block_on(async move {
        let how = how2;
        let setup = |e: String| ("setup".to_string(), e);
        let mk = |key: u8, outbound_ms: Option<u64>| {
            let svc = tower::service_fn(move |req: Request<Bytes>| async move {
                let token = req.headers().get("token").cloned().unwrap_or_default();
                if req.route() == "/busy" {
                    // CPU-bound / blocking work that does not reach an await point
                    tokio::task::block_in_place(|| std::thread::sleep(Duration::from_millis(300)));
                    return Ok::<_, std::convert::Infallible>(Response::new(Bytes::from(format!("busy body {token}"))).with_status(StatusCode::InternalServerError).with_header("owner", format!("busy {token}")).with_header("only-on-busy", "yes"));
                }
                Ok(Response::new(Bytes::from(format!("quick body {token}"))).with_header("owner", format!("quick {token}")))
            });
            let mut c = anemo::Config::default();
            c.outbound_request_timeout_ms = outbound_ms;
            Network::bind("127.0.0.1:0").private_key([key; 32]).server_name("free").config(c).start(svc).map_err(|e| ("setup".to_string(), e.to_string()))
        };
        let impatient = mk(43, None)?;
        // the same caller identity with a configured deadline of 100 ms for everything it sends
        let impatient_cfg = mk(46, Some(100))?;
        let bystander = mk(44, None)?;
        let b = mk(45, None)?;
        for n in [&impatient, &impatient_cfg, &bystander] {
            n.connect(b.local_addr()).await.map_err(|e| setup(format!("connect: {e}")))?;
        }
        let bid = b.peer_id();
        for round in 0..2 {
            let busy = Request::new(Bytes::from_static(b"x")).with_route("/busy").with_header("token", format!("abandoned-{round}"));
            match how.as_str() {
                "dropped" => {
                    if tokio::time::timeout(Duration::from_millis(100), impatient.rpc(bid, busy)).await.is_ok() {
                        return Err(setup("the blocking handler answered within 100 ms".into()));
                    }
                }
                _ => {
                    if impatient_cfg.rpc(bid, busy).await.is_ok() {
                        return Err(setup("the blocking handler answered within the caller's 100 ms deadline".into()));
                    }
                }
            }
            tokio::time::sleep(Duration::from_millis(500)).await;
            for (who, net) in [("bystander", &bystander), ("impatient", &impatient)] {
                let token = format!("{who}-{round}");
                let r = tokio::time::timeout(Duration::from_secs(5), net.rpc(bid, Request::new(Bytes::from_static(b"y")).with_route("/quick").with_header("token", token.clone()))).await;
                match r {
                    Err(_) => return Err(("rpc-failed-without-faults".to_string(), format!("[free-running, call given up ({how}) while its handler was in a blocking section] the next call ({token}) did not complete within 5 s"))),
                    Ok(Err(e)) => return Err(("rpc-failed-without-faults".to_string(), format!("[free-running, call given up ({how}) while its handler was in a blocking section] the next call ({token}) failed: {e:#}"))),
                    Ok(Ok(resp)) => {
                        let headers: std::collections::BTreeMap<String, String> = resp.headers().iter().map(|(k, v)| (k.clone(), v.clone())).collect();
                        let want: std::collections::BTreeMap<String, String> = [("owner".to_string(), format!("quick {token}"))].into_iter().collect();
                        if resp.status() != StatusCode::Success || headers != want || resp.body().as_ref() != format!("quick body {token}").as_bytes() {
                            return Err(("wrong-response".to_string(), format!("[free-running, multi-thread runtime] a call was given up by its caller ({how}) while its handler was inside a blocking section; the NEXT call ({token}) was answered with status {:?}, headers {headers:?}, body {:?} - its handler produced Success, {want:?}, \"quick body {token}\"", resp.status(), String::from_utf8_lossy(resp.body()))));
                        }
                    }
                }
            }
        }
        Ok(format!("free-running {how} next-answers-intact"))
    });
    drop(rt);
    match verdict {
        Ok(c) => out.class(c),
        Err((k, m)) if k == "setup" => out.machinery_errors.push(format!("free-running unit: {m}")),
        Err((k, m)) => out.violation(k, m, json!({"unit": unit})),
    }
    out.count("free_running_trials", 1);
}

impl Check for C02 {
    fn meta(&self, _tier: Tier) -> CheckMeta {
        CheckMeta {
            property: "C02",
            level: "fault_enumeration",
            rule: "simnet, two networks, one connection: (i) 4 gated RPCs in both directions released in every one of the 24 orders, (ii) every (request size x response size) pair of the size menu with sibling RPCs in both directions, (iii) header-map and route shapes, (iv) RPCs that fail at 16 points (limits, deadlines, disconnects, shutdown, six calls in a row given up by the caller at its N-th poll or after 0.1 - 2.5 ms) between two RPCs that must be unaffected; each explored over datagram fates {deliver, drop, duplicate, delay} within the unit's deviation bound; distinct = distinct (success/error counts, completion order)".into(),
            assumptions: vec![
                "the harness service computes its answer as a pure function of the request it saw; the oracle recomputes it from the request that was sent".into(),
                "quinn's loss recovery is executed, not modelled".into(),
                "a supplementary FREE-RUNNING pass (2 scenarios on a multi-thread runtime in real time: a call given up by its caller - dropped, or cut by the caller's configured deadline - while its handler is inside a 300 ms blocking section; the next answers must be exactly what their handlers produced) hosts the one behaviour the single-thread simulation cannot; counted under free_running_trials, not part of the exhaustive claim".into(),
            ],
            exhaustive: true,
        }
    }

    fn units(&self, tier: Tier) -> Vec<Value> {
        let mut u = vec![];
        for (i, p) in permutations(4).into_iter().enumerate() {
            let bound = match tier {
                Tier::Quick => 2,
                Tier::Thorough => 2,
            };
            u.push(json!({"kind":"perm","order":p,"bound":bound,"fate_budget":tier.pick(40, 60)}));
        }
        for (i, req) in SIZES.iter().enumerate() {
            for (j, resp) in SIZES.iter().enumerate() {
                let small = *req <= 1201 && *resp <= 1201;
                let big = req + resp > 200_000;
                if !big {
                    let bound = match tier {
                        // one deviation also over a multi-packet body in each direction
                        Tier::Quick => usize::from(small || ((*req == 65_535 || *resp == 65_535) && (*req == 0 || *resp == 0 || req == resp))),
                        Tier::Thorough => if small { 2 } else { 1 },
                    };
                    u.push(json!({"kind":"size","req_len":req,"resp_len":resp,"bound":bound,"fate_budget": if bound>0 {100_000} else {0}}));
                } else {
                    u.push(json!({"kind":"size","req_len":req,"resp_len":resp,"bound":0,"fate_budget":0}));
                    // multi-megabyte transfers: one deviation anywhere, split into windows of
                    // 150 datagrams so that the windows run in parallel
                    if tier == Tier::Thorough && (i + j) % 2 == 1 {
                        let dgs = (req + resp) / 1100 * 13 / 10 + 60;
                        let mut skip = 0;
                        while skip < dgs {
                            u.push(json!({"kind":"size","req_len":req,"resp_len":resp,"bound":1,"fate_skip":skip,"fate_budget":150}));
                            skip += 150;
                        }
                    }
                }
            }
        }
        for mode in FAIL_MODES {
            u.push(json!({"kind":"fail","mode":mode,"bound":tier.pick(1,2),"fate_budget":tier.pick(40,80)}));
        }
        for variant in 0..12 {
            for ab in [true, false] {
                u.push(json!({"kind":"hdr","variant":variant,"ab":ab,"bound":tier.pick(0,1),"fate_budget":tier.pick(0,200)}));
                if variant == 1 || variant >= 10 {
                    u.push(json!({"kind":"hdr","variant":variant,"ab":ab,"timeouts":true,"bound":0,"fate_budget":0}));
                }
            }
        }
        for how in ["dropped", "caller-deadline"] {
            u.insert(0, json!({"kind":"free-running","how":how}));
        }
        u
    }

    fn run_unit(&self, _tier: Tier, unit: &Value, out: &mut UnitResult) {
        if unit["kind"] == "free-running" {
            return free_running(unit, out);
        }
        let bound = unit["bound"].as_u64().unwrap() as usize;
        let u = unit.clone();
        explore_sim(
            out,
            crate::seed(),
            unit,
            5_000,
            bound,
            60_000,
            true,
            move |sim| scenario(sim, u.clone()).boxed(),
            |o: &Obs, _p, c| judge(o, c),
        );
    }

    fn replay(&self, replay: &Value) -> String {
        if replay["unit"]["kind"] == "free-running" {
            let mut out = UnitResult::default();
            free_running(&replay["unit"], &mut out);
            return format!("free-running unit re-run (real time): {:?} {:?}", out.classes, out.violations.iter().map(|v| &v.message).collect::<Vec<_>>());
        }
        let unit = replay["unit"].clone();
        let choices: Vec<u32> = replay["choices"]
            .as_array()
            .map(|a| a.iter().map(|x| x.as_u64().unwrap() as u32).collect())
            .unwrap_or_default();
        let seed = replay["seed"].as_u64().unwrap_or(1);
        let u = unit.clone();
        let o = sim_exec(seed, &choices, 5_000, move |sim| scenario(sim, u).boxed());
        match o.run {
            Some(r) => {
                let j = judge(&r.obs, &choices);
                format!(
                    "unit {unit}\nchoices {choices:?}\n{}\nclass: {}\nviolations: {:?}\npanics: {:?}",
                    r.obs.log.join("\n"),
                    j.class,
                    j.violations,
                    o.panics
                )
            }
            None => format!("execution hung={} panics={:?}", o.hung, o.panics),
        }
    }

    fn finish(&self, _tier: Tier, total: &mut UnitResult) -> Map<String, Value> {
        let orders: std::collections::BTreeSet<&str> = total
            .classes
            .keys()
            .filter_map(|k| k.split("order=").nth(1))
            .collect();
        let mut m = Map::new();
        m.insert("distinct_completion_orders".into(), json!(orders.len()));
        if orders.len() < 24 {
            total.machinery_errors.push(format!(
                "vacuous exploration: only {} distinct completion orders observed (24 release orders were driven)",
                orders.len()
            ));
        }
        m
    }
}
