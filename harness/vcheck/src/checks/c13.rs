//! C13 — background dialing: who is dialed, how often, and that it succeeds.
//!
//! One network under test with a known-peer table over real targets and black-hole addresses,
//! run for minutes of virtual time under a reachability schedule. Connection attempts are read
//! from the fabric (first QUIC Initial of every new connection id) and judged against the bounds
//! of the statement, with tick instants known exactly (jitter pinned through the hook).

use crate::report::{CheckMeta, UnitResult};
use crate::simrun::{explore_sim, sim_exec, Judged};
use crate::world::*;
use crate::{Check, Tier};
use anemo::types::{PeerAffinity, PeerEvent};
use futures::FutureExt;
use serde_json::{json, Map, Value};
use std::net::SocketAddr;
use std::sync::{Arc, Mutex};

pub struct C13;

const CONNECT_TIMEOUT_US: u64 = 1_500_000;
const IDLE_MS: u64 = 3_000;
const SLACK_US: u64 = 300_000;

#[derive(Clone, Debug, Default)]
pub struct Obs {
    pub log: Vec<String>,
    pub violations: Vec<(String, String)>,
    pub class: String,
}

fn cfg(unit: &Value) -> anemo::Config {
    let mut c = anemo::Config::default();
    c.connectivity_check_interval_ms = unit["interval_ms"].as_u64();
    c.connection_backoff_ms = unit["step_ms"].as_u64();
    c.max_connection_backoff_ms = unit["max_ms"].as_u64();
    c.max_concurrent_outstanding_connecting_connections = unit["cap"].as_u64().map(|x| x as usize);
    c.connect_timeout_ms = Some(CONNECT_TIMEOUT_US / 1000);
    // background dials to High-affinity peers are not subject to the connection limit
    c.max_concurrent_connections = unit["conn_limit"].as_u64().map(|x| x as usize);
    let mut q = anemo::QuicConfig::default();
    q.max_idle_timeout_ms = Some(IDLE_MS);
    q.keep_alive_interval_ms = Some(1_000);
    c.quic = Some(q);
    c
}

fn quiet_cfg() -> anemo::Config {
    let mut c = anemo::Config::default();
    c.connectivity_check_interval_ms = Some(3_600_000);
    let mut q = anemo::QuicConfig::default();
    q.max_idle_timeout_ms = Some(IDLE_MS);
    q.keep_alive_interval_ms = Some(1_000);
    c.quic = Some(q);
    c
}

/// (from_us, up?) toggles of the link between X and target 0, sorted
fn schedule(unit: &Value) -> Vec<(u64, bool)> {
    unit["schedule"].as_array().unwrap().iter().map(|e| (e[0].as_u64().unwrap(), e[1].as_bool().unwrap())).collect()
}

struct Target {
    name: &'static str,
    /// addresses in the order they are listed in the known-peer entry
    addrs: Vec<SocketAddr>,
    /// index into addrs of the address that answers (None: no address ever answers)
    live_addr: Option<usize>,
    high: bool,
    may_dial: bool,
    id: anemo::PeerId,
}

async fn scenario(sim: Arc<Sim>, unit: Value) -> Obs {
    let mut o = Obs::default();
    let jitter_us = unit["jitter_ms"].as_u64().unwrap() * 1000;
    anemo::verif::set_jitter_override(Some(std::time::Duration::from_micros(jitter_us)));
    let period = unit["interval_ms"].as_u64().unwrap() * 1000 + jitter_us;
    let step = unit["step_ms"].as_u64().unwrap() * 1000;
    let maxb = unit["max_ms"].as_u64().unwrap() * 1000;
    let cap = unit["cap"].as_u64().unwrap() as usize;
    let horizon_us = unit["horizon_s"].as_u64().unwrap() * 1_000_000;
    let sched = schedule(&unit);

    // targets first (so that the network under test starts last and its first tick sees the table)
    let t0 = sim.start(&NodeSpec::new(11).config(quiet_cfg())).unwrap();
    let t1 = sim.start(&NodeSpec::new(12).config(quiet_cfg())).unwrap();
    let t2 = sim.start(&NodeSpec::new(13).config(quiet_cfg())).unwrap();
    let t3 = sim.start(&NodeSpec::new(14).config(quiet_cfg())).unwrap();
    let t5 = sim.start(&NodeSpec::new(16).config(quiet_cfg())).unwrap();
    // black-hole addresses: bound (so nobody else gets them) but not attached to the fabric
    let holes: Vec<std::net::UdpSocket> = (0..10).map(|_| std::net::UdpSocket::bind("127.0.0.1:0").unwrap()).collect();
    let hole = |i: usize| holes[i].local_addr().unwrap();
    let x = sim.start(&NodeSpec::new(10).config(cfg(&unit))).unwrap();
    let t_start = sim.now_us();
    let nx = sim.node_of(&x);
    let n0 = sim.node_of(&t0);
    let table_variant = unit["table"].as_u64().unwrap();
    let targets = vec![
        Target { name: "t0", addrs: vec![t0.local_addr()], live_addr: Some(0), high: true, may_dial: true, id: t0.peer_id() },
        Target {
            name: "t1",
            addrs: match table_variant {
                0 => vec![hole(0), hole(1), t1.local_addr()],
                1 => vec![t1.local_addr()],
                _ => vec![hole(0), t1.local_addr()],
            },
            live_addr: Some(match table_variant { 0 => 2, 1 => 0, _ => 1 }),
            high: true,
            may_dial: true,
            id: t1.peer_id(),
        },
        Target { name: "t2-allowed", addrs: vec![t2.local_addr()], live_addr: Some(0), high: false, may_dial: false, id: t2.peer_id() },
        Target { name: "t3-never", addrs: vec![t3.local_addr()], live_addr: Some(0), high: false, may_dial: false, id: t3.peer_id() },
        Target { name: "t4-no-address", addrs: vec![], live_addr: None, high: true, may_dial: false, id: peer_id_of_key(15) },
        Target { name: "self", addrs: vec![hole(2)], live_addr: None, high: true, may_dial: false, id: x.peer_id() },
        // a High peer that connects to us first: never to be dialed while connected
        // (with a connection limit of 0 it cannot connect first: then it is one more peer to dial)
        Target { name: "t5-already-connected", addrs: vec![t5.local_addr()], live_addr: Some(0), high: true, may_dial: unit["conn_limit"].as_u64() == Some(0), id: t5.peer_id() },
    ];
    // High-affinity peers none of whose addresses ever answers: they are dialed, fail and back off
    // for the whole run (and must not keep anybody else from being dialed while they back off)
    let mut targets = targets;
    let dead = unit["dead"].as_u64().unwrap_or(0) as usize;
    const DEAD_NAMES: [&str; 5] = ["dead0", "dead1", "dead2", "dead3", "dead4"];
    for d in 0..dead {
        targets.push(Target { name: DEAD_NAMES[d], addrs: vec![hole(4 + d)], live_addr: None, high: true, may_dial: true, id: peer_id_of_key(40 + d as u8) });
    }
    // a High peer whose known address never answers but which itself dials in for a while
    // (a connection made any other way does not shorten the back-off its failed dials earned)
    let inbound: Vec<u64> = unit["inbound_ms"].as_array().map(|a| a.iter().map(|x| x.as_u64().unwrap()).collect()).unwrap_or_default();
    let t6 = if inbound.is_empty() { None } else { Some(sim.start(&NodeSpec::new(17).config(quiet_cfg())).unwrap()) };
    if let Some(t6) = &t6 {
        targets.push(Target { name: "t6-dials-in", addrs: vec![hole(9)], live_addr: None, high: true, may_dial: true, id: t6.peer_id() });
    }
    let targets = targets;
    // t5 dials X before the table is installed
    if unit["conn_limit"].as_u64() != Some(0) {
        let pre = t5.connect(x.local_addr()).await;
        if pre.is_err() {
            o.violations.push(("setup".into(), format!("t5 could not connect: {pre:?}")));
        }
    }
    // link X<->t0 follows the schedule, initially whatever the first entry at 0 says (default up)
    let mut up0 = true;
    for (t, up) in &sched {
        if *t == 0 {
            up0 = *up;
        }
    }
    sim.fabric.set_link_both(nx, n0, up0);
    for t in &targets {
        let aff = if t.name == "t2-allowed" { PeerAffinity::Allowed } else if t.name == "t3-never" { PeerAffinity::Never } else { PeerAffinity::High };
        x.known_peers().insert(known_peer(t.id, aff, t.addrs.clone()));
    }
    let t_table = sim.now_us();
    // record X's events with timestamps
    let events: Arc<Mutex<Vec<(u64, PeerEvent)>>> = Arc::new(Mutex::new(vec![]));
    let (mut rx, snap) = x.subscribe().unwrap();
    {
        let (events, sim2) = (events.clone(), sim.clone());
        tokio::spawn(async move {
            while let Ok(e) = rx.recv().await {
                events.lock().unwrap().push((sim2.now_us(), e));
            }
        });
    }
    // explicit dials to a silent address made by the application while all this goes on: they are
    // not subject to the cap themselves, but they are connections being established
    for at_ms in unit["explicit_at_ms"].as_array().cloned().unwrap_or_default() {
        let (x2, addr, at) = (x.clone(), hole(3), at_ms.as_u64().unwrap());
        tokio::spawn(async move {
            tokio::time::sleep(ms(at)).await;
            let _ = x2.connect(addr).await;
        });
    }
    if let Some(t6) = &t6 {
        let (t6, xa, xid, from, to) = (t6.clone(), x.local_addr(), x.peer_id(), inbound[0], inbound[1]);
        tokio::spawn(async move {
            tokio::time::sleep(ms(from)).await;
            let _ = t6.connect(xa).await;
            tokio::time::sleep(ms(to - from)).await;
            let _ = t6.disconnect(xid);
        });
    }
    // drive the schedule
    let mut last = 0u64;
    for (t, up) in &sched {
        if *t > last {
            tokio::time::sleep(std::time::Duration::from_micros(*t - last)).await;
            last = *t;
        }
        sim.fabric.set_link_both(nx, n0, *up);
    }
    if horizon_us > last {
        tokio::time::sleep(std::time::Duration::from_micros(horizon_us - last)).await;
    }

    // ---------------- analysis ----------------
    let attempts: Vec<(u64, SocketAddr)> = sim.fabric.attempts().into_iter().filter(|a| a.1 == nx && a.0 >= t_table).map(|a| (a.0, a.2)).collect();
    let events = events.lock().unwrap().clone();
    macro_rules! viol {
        ($k:expr, $($arg:tt)*) => { o.violations.push(($k.to_string(), format!($($arg)*))) };
    }
    let cfgs = format!("[interval {}ms jitter {}ms step {}ms max {}ms cap {cap} table {table_variant} schedule {:?}{}{}]", unit["interval_ms"], unit["jitter_ms"], unit["step_ms"], unit["max_ms"], unit["schedule"], match unit["conn_limit"].as_u64() { Some(l) => format!(" max_concurrent_connections {l}"), None => String::new() }, if dead > 0 { format!(" + {dead} High peers that never answer") } else if !inbound.is_empty() { format!(" + a High peer with a dead address that dials in itself from {} to {} ms", inbound[0], inbound[1]) } else { String::new() });
    // connected(p, t): is p listed by X at time t (from snapshot + timestamped events)
    let connected_at = |id: &anemo::PeerId, t: u64| -> bool {
        let mut c = snap.contains(id);
        for (te, e) in &events {
            if *te > t {
                break;
            }
            match e {
                PeerEvent::NewPeer(p) if p == id => c = true,
                PeerEvent::LostPeer(p, _) if p == id => c = false,
                _ => {}
            }
        }
        c
    };
    let first_new_after = |id: &anemo::PeerId, t: u64| -> Option<u64> { events.iter().find(|(te, e)| *te >= t && matches!(e, PeerEvent::NewPeer(p) if p == id)).map(|(te, _)| *te) };
    // tick instants of the network under test
    let tick_at_or_after = |t: u64| -> u64 {
        let rel = t.saturating_sub(t_start);
        let n = (rel + period - 1) / period;
        t_start + n * period
    };
    let tick_after = |t: u64| -> u64 {
        let rel = t.saturating_sub(t_start);
        t_start + (rel / period + 1) * period
    };
    let mut spans: Vec<(u64, u64)> = vec![]; // in-progress intervals of all attempts
    let mut n_attempts = 0;
    let mut n_fail = 0;
    // per target: (start, end, failed, consecutive failures after it)
    let mut hist: Vec<Vec<(u64, u64, bool, usize)>> = vec![vec![]; targets.len()];
    for (ti, tg) in targets.iter().enumerate() {
        let mine: Vec<(u64, usize)> = attempts.iter().filter_map(|(t, a)| tg.addrs.iter().position(|x| x == a).map(|i| (*t, i))).collect();
        if !tg.may_dial && !mine.is_empty() {
            viol!("dialed-ineligible-peer", "{cfgs} {} must never be dialed in the background but was, {} times (first at {} us)", tg.name, mine.len(), mine[0].0);
            continue;
        }
        if !tg.high {
            continue;
        }
        // walk this peer's attempts
        let mut k = 0usize; // consecutive failures so far
        let mut prev: Option<(u64, u64, bool)> = None; // (start, end, failed)
        for (i, (t, ai)) in mine.iter().enumerate() {
            n_attempts += 1;
            if connected_at(&tg.id, *t) {
                viol!("dialed-connected-peer", "{cfgs} {} was dialed at {} us while it was listed as connected", tg.name, t);
            }
            // rotation: after k consecutive failures the next attempt uses address k mod len
            if *ai != k % tg.addrs.len() {
                viol!("address-rotation", "{cfgs} {}: attempt {} (after {k} consecutive failures) went to address #{ai}, expected #{}", tg.name, i, k % tg.addrs.len());
            }
            if let Some((ps, pe, pfailed)) = prev {
                if *t < pe {
                    viol!("dialed-while-dialing", "{cfgs} {}: an attempt started at {} us while the previous one (started {} us) was still in progress until {} us", tg.name, t, ps, pe);
                }
                if pfailed {
                    // failure noticed at the first tick after it completed; next attempt no sooner
                    // than min(max, k*step) after that, and (if nothing else holds it back) exactly at
                    // the first tick after that
                    let notice = tick_at_or_after(pe);
                    let backoff = maxb.min(step.saturating_mul(k as u64));
                    let earliest = notice + backoff;
                    if *t + 50_000 < earliest {
                        viol!("backoff-too-short", "{cfgs} {}: after {k} consecutive failures (last noticed at {} us) the next attempt came at {} us, {} us after the notice; min(max, k*step) = {} us", tg.name, notice, t, t.saturating_sub(notice), backoff);
                    }
                    let due = tick_after(earliest);
                    if cap >= 3 && *t > due + SLACK_US && !connected_at(&tg.id, due) {
                        viol!("backoff-too-long", "{cfgs} {}: after {k} consecutive failures the next attempt was due at {} us but came at {} us", tg.name, due, t);
                    }
                }
            }
            // outcome of this attempt
            let live = tg.live_addr == Some(*ai) && (tg.name != "t0" || link_up_during(&sched, up0, *t, *t + CONNECT_TIMEOUT_US));
            let connected = first_new_after(&tg.id, *t).filter(|tc| *tc <= *t + CONNECT_TIMEOUT_US + 100_000);
            let (end, failed) = match connected {
                Some(tc) => (tc, false),
                None => (*t + CONNECT_TIMEOUT_US, true),
            };
            if live && failed && tg.name != "t0" {
                viol!("dial-to-live-address-failed", "{cfgs} {}: the attempt at {} us to a live address did not connect", tg.name, t);
            }
            spans.push((*t, end));
            if failed {
                k += 1;
                n_fail += 1;
            } else {
                k = 0;
            }
            prev = Some((*t, end, failed));
            hist[ti].push((*t, end, failed, k));
        }
        // liveness for peers whose live address is always reachable (t1): connected by the time the
        // rotation reaches the live address
        if tg.name == "t1" {
            let live = tg.live_addr.unwrap() as u64;
            // attempts 0..live fail (1.5 s each, noticed at the next tick, then k*step backoff)
            let mut t = t_table.max(tick_at_or_after(t_table));
            for kk in 1..=live {
                let notice = tick_at_or_after(t + CONNECT_TIMEOUT_US);
                t = tick_after(notice + maxb.min(step * kk));
            }
            // with a cap, other peers' attempts may delay ours by whole attempt durations
            let allowance = if cap >= 3 { 0 } else { 12 * (CONNECT_TIMEOUT_US + period) };
            let bound = t + SLACK_US + allowance;
            // (with a small cap and peers that fail for ever, the slots may go to those peers at
            // every check — the statement gives no order among peers that may be dialed, so no
            // time bound applies then; work conservation below is what is checked)
            let contended = dead > 0 && cap < 3;
            match first_new_after(&tg.id, t_table) {
                Some(tc) if tc <= bound => {}
                _ if contended => {}
                other => {
                    if bound < t_start + horizon_us {
                        viol!("not-connected-in-time", "{cfgs} {}: live address is #{live} in its rotation; expected a connection by {} us, got {:?}", tg.name, bound, other);
                    }
                }
            }
        }
    }
    // liveness for t0 along its reachability schedule
    {
        let tg = &targets[0];
        let mine: Vec<u64> = attempts.iter().filter(|(_, a)| *a == tg.addrs[0]).map(|(t, _)| *t).collect();
        let mut intervals: Vec<(u64, u64)> = vec![];
        let mut cur_up = up0;
        let mut since = t_table;
        for (t, up) in &sched {
            let t = *t + 0;
            if *up != cur_up {
                if cur_up {
                    intervals.push((since, t_start.max(0) + t));
                }
                cur_up = *up;
                since = t_start + t;
            }
        }
        if cur_up {
            intervals.push((since, t_start + horizon_us));
        }
        for (u, v) in intervals {
            if connected_at(&tg.id, u) {
                // already connected when the interval starts: must stay or come back; loss handled by the next interval
                continue;
            }
            // consecutive failures at time u = failed attempts since the last success before u
            let last_success = events.iter().filter(|(te, e)| *te < u && matches!(e, PeerEvent::NewPeer(p) if *p == tg.id)).map(|(te, _)| *te).last().unwrap_or(0);
            let k = mine.iter().filter(|t| **t >= last_success && **t + CONNECT_TIMEOUT_US <= u + CONNECT_TIMEOUT_US && **t < u).count() as u64;
            let allowance = if cap >= 3 { 0 } else { 12 * (CONNECT_TIMEOUT_US + period) };
            let bound = u + maxb.min(step.saturating_mul(k)) + 2 * period + CONNECT_TIMEOUT_US + SLACK_US + allowance;
            if bound >= v {
                continue; // the interval is too short for the bound to apply
            }
            match first_new_after(&tg.id, u) {
                Some(tc) if tc <= bound => {}
                _ if dead > 0 && cap < 3 => {}
                other => viol!("not-connected-in-time", "{cfgs} t0 became reachable at {} us after {k} consecutive failures; expected a connection by {} us (min(max,k*step) + 2 intervals + connect time), got {:?}", u, bound, other),
            }
        }
    }
    // cap: attempts in progress at the start of any BACKGROUND attempt must be below the cap
    // (explicit dials count as in progress but may start at any time)
    let explicit_spans: Vec<(u64, u64)> = attempts.iter().filter(|(_, a)| *a == hole(3)).map(|(t, _)| (*t, *t + CONNECT_TIMEOUT_US)).collect();
    if unit["explicit_at_ms"].as_array().map(|a| a.len()).unwrap_or(0) != explicit_spans.len() {
        viol!("setup", "{cfgs} {} explicit dials were observed on the wire", explicit_spans.len());
    }
    for (i, (s, _)) in spans.iter().enumerate() {
        let in_progress = spans.iter().enumerate().filter(|(j, (a, b))| *j != i && *a < *s && *s < *b).count() + explicit_spans.iter().filter(|(a, b)| *a < *s && *s < *b).count();
        if in_progress >= cap {
            viol!("cap-exceeded", "{cfgs} an attempt started at {} us while {} others were in progress (cap {cap})", s, in_progress);
        }
    }
    // work conservation: at a tick with free slots, peers that may be dialed right now are dialed
    // (as many as there are free slots). Everything uncertain is resolved against the claim: an
    // attempt that ended within the margin counts as in progress, a peer whose back-off ends
    // within the margin (or that was lost / found within it) does not count as eligible.
    {
        let margin = 150_000u64;
        let mut tick = tick_after(t_table);
        while tick + CONNECT_TIMEOUT_US + margin < t_start + horizon_us {
            let started_now = spans.iter().filter(|(a, _)| *a + 20_000 >= tick && *a <= tick + margin).count();
            let in_progress = spans.iter().chain(explicit_spans.iter()).filter(|(a, b)| *a + 20_000 < tick && *b + margin > tick).count();
            let free = cap.saturating_sub(in_progress);
            let mut eligible = vec![];
            for (ti, tg) in targets.iter().enumerate() {
                if !tg.high || !tg.may_dial || tg.addrs.is_empty() {
                    continue;
                }
                // listed at no instant near the tick
                let near_listed = connected_at(&tg.id, tick.saturating_sub(margin)) || connected_at(&tg.id, tick + margin) || events.iter().any(|(te, e)| *te + margin >= tick && *te <= tick + margin && matches!(e, PeerEvent::NewPeer(p) | PeerEvent::LostPeer(p, _) if *p == tg.id));
                if near_listed {
                    continue;
                }
                let before: Vec<&(u64, u64, bool, usize)> = hist[ti].iter().filter(|h| h.0 + 20_000 < tick).collect();
                let ok = match before.last() {
                    None => true,
                    Some((_, end, failed, k)) => {
                        if *end + margin > tick {
                            false // still (or just) in progress
                        } else if !*failed {
                            true // connected and lost again since: no back-off
                        } else {
                            let notice = tick_at_or_after(*end);
                            notice + maxb.min(step.saturating_mul(*k as u64)) + margin < tick
                        }
                    }
                };
                if ok {
                    eligible.push(tg.name);
                }
            }
            let must = free.min(eligible.len());
            if started_now < must {
                viol!("free-slot-not-used", "{cfgs} at the connectivity check of {} us {} attempt(s) were in progress (cap {cap}) and {:?} could be dialed (High affinity, usable address, not connected, not being dialed, not backing off), yet only {} dial(s) started", tick, in_progress, eligible, started_now);
                break;
            }
            tick += period;
        }
    }
    o.log.push(format!("attempts {:?}", attempts.iter().map(|(t, a)| (t / 1000, a.port())).collect::<Vec<_>>()));
    o.log.push(format!("events {:?}", events.iter().map(|(t, e)| (t / 1000, event_str(&sim, e))).collect::<Vec<_>>()));
    o.class = format!("attempts={} failures={} connected_t0={} connected_t1={}", n_attempts.min(12), n_fail.min(12), x.peers().contains(&targets[0].id), x.peers().contains(&targets[1].id));
    o
}

fn link_up_during(sched: &[(u64, bool)], up0: bool, from: u64, to: u64) -> bool {
    // conservative: up during the whole window
    let mut up = up0;
    let mut ok = true;
    let mut state_at_from = up0;
    for (t, u) in sched {
        if *t <= from {
            state_at_from = *u;
        } else if *t < to && !*u {
            ok = false;
        }
        up = *u;
    }
    let _ = up;
    state_at_from && ok
}

fn judge(o: &Obs) -> Judged {
    Judged { class: o.class.clone(), violations: o.violations.clone(), sample: Some(json!(o.log)) }
}

/// E2 sweep of the back-off arithmetic itself.
fn backoff_sweep(out: &mut UnitResult) {
    use anemo::verif::VBackoff;
    use std::time::{Duration, Instant};
    let now = Instant::now();
    for step_ms in [0u64, 1, 999, 1_000, 10_000, 3_600_000, u64::MAX / 1_000_000] {
        for max_ms in [0u64, 1, 3_000, 60_000, u64::MAX / 1_000_000] {
            let (step, max) = (Duration::from_millis(step_ms), Duration::from_millis(max_ms));
            let r = std::panic::catch_unwind(|| {
                let mut b = VBackoff::new(now, step, max);
                let mut bad = vec![];
                for k in 1..=300usize {
                    let want = max.min(step.saturating_mul(k as u32));
                    if b.attempts() != k || b.backoff() != now + want {
                        bad.push(format!("k={k}: attempts {} backoff {:?}, expected {want:?}", b.attempts(), b.backoff() - now));
                        break;
                    }
                    b.update(now, step, max);
                }
                bad
            });
            out.evaluations += 300;
            out.class(format!("backoff step>max={}", step_ms > max_ms));
            match r {
                Ok(bad) => {
                    for b in bad {
                        out.violation("backoff-arithmetic", format!("step {step_ms} ms max {max_ms} ms: {b}"), json!({"unit": {"kind": "backoff"}}));
                    }
                }
                Err(_) => out.violation("backoff-arithmetic", format!("step {step_ms} ms max {max_ms} ms: panicked"), json!({"unit": {"kind": "backoff"}})),
            }
        }
    }
}

impl Check for C13 {
    fn meta(&self, _tier: Tier) -> CheckMeta {
        CheckMeta {
            property: "C13",
            level: "exploration",
            rule: "configurations (interval x jitter x back-off step x max back-off x in-flight cap) x known-peer table variants (High with 1/2/3 addresses incl. black holes, Allowed, Never, self, address-less, already connected) x reachability schedules of a High target (up/down toggles from a menu of instants), each run for 60-120 virtual seconds; a connection limit of 0 / 1 (already filled) that background dials must ignore; a High peer with a dead address that itself dials in for a while during its back-off; 2 or 4 further High peers that never answer, with caps 1 and 2 (at every check with free slots, as many peers that may be dialed are dialed); small caps also with explicit dials to a silent address in flight (they hold slots); attempts read from the fabric; distinct = distinct (attempt count, failure count, final connectivity); plus a sweep of the back-off arithmetic".into(),
            assumptions: vec!["tick instants are start + n*(interval + jitter) with the jitter pinned through the hook (values 0 and 900 ms)".into(), "connect timeout 1.5 s so that a dial to a black hole lasts exactly that long".into()],
            exhaustive: true,
        }
    }

    fn units(&self, tier: Tier) -> Vec<Value> {
        let mut u = vec![json!({"kind":"backoff"})];
        let s = 1_000_000u64;
        let schedules: Vec<Vec<(u64, bool)>> = vec![
            vec![],
            vec![(0, false), (2 * s + s / 2, true)],
            vec![(0, false), (7 * s, true)],
            vec![(0, false), (20 * s, true)],
            vec![(10 * s, false), (16 * s, true)],
            vec![(0, false), (6 * s, true), (20 * s, false), (26 * s + s / 3, true)],
            vec![(0, false), (4 * s, true), (4 * s + s / 2, false), (30 * s, true)],
            vec![(3 * s, false), (9 * s, true), (15 * s, false), (21 * s, true), (40 * s, false), (46 * s, true)],
        ];
        let mut schedules = schedules;
        if tier == Tier::Thorough {
            // every alternating down/up schedule over up to three instants of a menu
            let menu = [0u64, 2 * s + s / 2, 7 * s, 12 * s + s / 4, 20 * s, 33 * s];
            for a in 0..menu.len() {
                schedules.push(vec![(menu[a], false)]);
                for b in (a + 1)..menu.len() {
                    schedules.push(vec![(menu[a], false), (menu[b], true)]);
                    for c in (b + 1)..menu.len() {
                        schedules.push(vec![(menu[a], false), (menu[b], true), (menu[c], false)]);
                        for d in (c + 1)..menu.len() {
                            schedules.push(vec![(menu[a], false), (menu[b], true), (menu[c], false), (menu[d], true)]);
                        }
                    }
                }
            }
        }
        for interval in [1_000u64, 5_000] {
            for jitter in [0u64, 900] {
                for (step, max) in [(1_000u64, 3_000u64), (1_000, 60_000), (3_000, 60_000), (10_000, 15_000)] {
                    for cap in [1u64, 2, 100] {
                        for table in 0..3u64 {
                            for (si, sc) in schedules.iter().enumerate() {
                                let keep = match tier {
                                    Tier::Thorough => true,
                                    Tier::Quick => (jitter == 0 || (step == 1_000 && cap == 100)) && (table == 0 || si % 3 == 0) && (interval == 1_000 || si % 2 == 1),
                                };
                                if keep {
                                    u.push(json!({"kind":"run","interval_ms":interval,"jitter_ms":jitter,"step_ms":step,"max_ms":max,"cap":cap,"table":table,"schedule":sc,"horizon_s": if interval == 1_000 { 70 } else { 120 }}));
                                }
                            }
                        }
                    }
                }
            }
        }
        // a connection limit that the High peer connected from the start already fills (or 0)
        for limit in [0u64, 1] {
            for cap in [1u64, 100] {
                for table in 0..3u64 {
                    for (si, sc) in schedules.iter().enumerate() {
                        if tier == Tier::Quick && si % 3 != 0 {
                            continue;
                        }
                        u.push(json!({"kind":"run","interval_ms":1_000,"jitter_ms":0,"step_ms":1_000,"max_ms":3_000,"cap":cap,"table":table,"schedule":sc,"horizon_s":70,"conn_limit":limit}));
                    }
                }
            }
        }
        // several High-affinity peers that never answer (permanently failing, backing off) next to
        // the reachable ones, with small caps
        for dead in [2u64, 4] {
            for cap in [1u64, 2] {
                for (step, max) in [(1_000u64, 3_000u64), (10_000, 15_000)] {
                    for table in [1u64, 2] {
                        for (si, sc) in schedules.iter().enumerate() {
                            if si > 2 && tier == Tier::Quick {
                                continue;
                            }
                            u.push(json!({"kind":"run","interval_ms":1_000,"jitter_ms":0,"step_ms":step,"max_ms":max,"cap":cap,"table":table,"schedule":sc,"horizon_s":70,"dead":dead}));
                        }
                    }
                }
            }
        }
        // a High peer with a dead address that dials in itself for two seconds during its back-off
        for (step, max) in [(10_000u64, 15_000u64), (3_000, 60_000)] {
            for inbound in [json!([5_000, 7_000]), json!([4_200, 4_700])] {
                for (si, sc) in schedules.iter().enumerate() {
                    if si > 1 && tier == Tier::Quick {
                        continue;
                    }
                    u.push(json!({"kind":"run","interval_ms":1_000,"jitter_ms":0,"step_ms":step,"max_ms":max,"cap":100,"table":1,"schedule":sc,"horizon_s":70,"inbound_ms":inbound}));
                }
            }
        }
        // explicit dials to a silent address holding slots of a small cap
        for interval in [1_000u64, 5_000] {
            for cap in [1u64, 2] {
                for table in 0..3u64 {
                    for (si, sc) in schedules.iter().enumerate() {
                        if tier == Tier::Quick && (si % 3 != 0 || (interval == 5_000 && table != 1)) {
                            continue;
                        }
                        for explicit in [json!([300, 5_300, 20_300]), json!([300, 350, 9_000, 9_050])] {
                            u.push(json!({"kind":"run","interval_ms":interval,"jitter_ms":0,"step_ms":1_000,"max_ms":3_000,"cap":cap,"table":table,"schedule":sc,"horizon_s": if interval == 1_000 { 70 } else { 120 },"explicit_at_ms":explicit}));
                        }
                    }
                }
            }
        }
        u
    }

    fn run_unit(&self, _tier: Tier, unit: &Value, out: &mut UnitResult) {
        if unit["kind"] == "backoff" {
            backoff_sweep(out);
            return;
        }
        let u = unit.clone();
        explore_sim(out, crate::seed(), unit, 2_000, 0, 1, true, move |sim| scenario(sim, u.clone()).boxed(), |o: &Obs, _p, _c| judge(o));
    }

    fn replay(&self, replay: &Value) -> String {
        let unit = replay["unit"].clone();
        if unit["kind"] == "backoff" {
            let mut out = UnitResult::default();
            backoff_sweep(&mut out);
            return format!("{:#?}", out.violations);
        }
        let seed = replay["seed"].as_u64().unwrap_or(1);
        let u = unit.clone();
        let o = sim_exec(seed, &[], 2_000, move |sim| scenario(sim, u).boxed());
        match o.run {
            Some(r) => format!("unit {unit}\n{}\nclass {}\nviolations {:#?}\npanics {:?}", r.obs.log.join("\n"), r.obs.class, r.obs.violations, o.panics),
            None => format!("execution hung={} panics={:?}", o.hung, o.panics),
        }
    }

    fn finish(&self, _tier: Tier, total: &mut UnitResult) -> Map<String, Value> {
        let any_fail = total.classes.keys().any(|k| k.contains("failures=") && !k.contains("failures=0"));
        if !any_fail {
            total.machinery_errors.push("vacuous: no run with a failed background dial".into());
        }
        Map::new()
    }
}
