//! C11 — request deadline = min(local default, timeout header), end to end.
//!
//! Exhaustive matrix over (callee inbound default, caller outbound default, the two settings on
//! the *other* ends, header value, handler duration, link latency, user outbound layer), each run
//! as one whole-system execution in virtual time and compared with a closed-form reference.

use crate::report::{CheckMeta, UnitResult};
use crate::simrun::{explore_sim, sim_exec, Judged};
use crate::world::*;
use crate::{Check, Tier};
use futures::FutureExt;
use serde_json::{json, Map, Value};
use std::sync::Arc;

pub struct C11;

const HEADERS: [&str; 12] = [
    "<absent>",
    "0",
    "1",
    "100000000",            // 100 ms
    "10000000000",          // 10 s
    "18446744073709551615", // u64::MAX ns
    "18446744073709551616", // overflows u64
    "abc",
    "-1",
    " 5",
    "",
    "60000000", // 60 ms
];
/// handler durations in ms; u64::MAX = never completes
const DURATIONS: [u64; 5] = [0, 30, 120, 1000, u64::MAX];
const DEFAULTS: [Option<u64>; 4] = [None, Some(0), Some(50), Some(200)];
const HORIZON_MS: u64 = 20_000;
const NS_PER_MS: u128 = 1_000_000;

#[derive(Clone, Debug)]
pub struct Obs {
    pub result: Result<String, String>, // Ok(status) / Err(message)
    pub pending_at_horizon: bool,
    pub t_end_us: u64,
    pub handler_start_us: Option<u64>,
    pub handler_drop_us: Option<u64>,
    pub handler_completed: bool,
    pub handler_complete_us: Option<u64>,
    pub starts: usize,
    pub saw_user_header: Option<bool>,
    pub setup_error: Option<String>,
}

/// Reference header parser, written from the statement: decimal digits only, must fit in u64,
/// nanoseconds; anything else counts as absent.
fn ref_parse(h: &str) -> Option<u128> {
    if h == "<absent>" || h.is_empty() || !h.bytes().all(|b| b.is_ascii_digit()) {
        return None;
    }
    let v: u128 = h.parse().ok()?;
    if v > u64::MAX as u128 {
        return None;
    }
    Some(v)
}

fn min_opt(a: Option<u128>, b: Option<u128>) -> Option<u128> {
    match (a, b) {
        (None, x) | (x, None) => x,
        (Some(x), Some(y)) => Some(x.min(y)),
    }
}

fn cfg(inbound: Option<u64>, outbound: Option<u64>) -> anemo::Config {
    let mut c = anemo::Config::default();
    c.inbound_request_timeout_ms = inbound;
    c.outbound_request_timeout_ms = outbound;
    c
}

fn opt(v: &Value) -> Option<u64> {
    v.as_u64()
}

async fn scenario(sim: Arc<Sim>, unit: Value, header: String, dur_ms: u64) -> Obs {
    let lat_ms = unit["lat_ms"].as_u64().unwrap();
    let user_layer = unit["user_layer"].as_bool().unwrap();
    let via_peer = unit["via_peer"].as_bool().unwrap();
    let caller_spec = NodeSpec::new(1).config(cfg(opt(&unit["in_caller"]), opt(&unit["out_caller"])));
    let stream_busy = unit["stream_busy"].as_bool().unwrap_or(false);
    let mut callee_cfg = cfg(opt(&unit["in_callee"]), opt(&unit["out_callee"]));
    if stream_busy {
        // the callee grants one request stream at a time
        let mut q = anemo::QuicConfig::default();
        q.max_concurrent_bidi_streams = Some(1);
        callee_cfg.quic = Some(q);
    }
    let callee_spec = NodeSpec::new(2).config(callee_cfg);
    let a = if user_layer {
        // the two builder orders (configuration first / layer first) alternate with the latency
        sim.start_with_user_layer_ordered(&caller_spec, lat_ms == 5).unwrap()
    } else {
        sim.start(&caller_spec).unwrap()
    };
    let b = sim.start(&callee_spec).unwrap();
    let (na, nb) = (sim.node_of(&a), sim.node_of(&b));
    sim.fabric.set_latency_us(na, nb, lat_ms * 1000);
    sim.fabric.set_latency_us(nb, na, lat_ms * 1000);
    let mut obs = Obs {
        result: Err(String::new()),
        pending_at_horizon: false,
        t_end_us: 0,
        handler_start_us: None,
        handler_drop_us: None,
        handler_completed: false,
        handler_complete_us: None,
        starts: 0,
        saw_user_header: None,
        setup_error: None,
    };
    if let Err(e) = a.connect(b.local_addr()).await {
        obs.setup_error = Some(format!("connect: {e}"));
        return obs;
    }
    tokio::time::sleep(ms(100)).await;
    let mut spec = RpcSpec::new("t");
    if header != "<absent>" {
        let stamp = unit["stamp"].as_bool().unwrap_or(false);
        spec = spec.header(if stamp { "h-stamp-timeout" } else { "timeout" }, header.clone());
    }
    if dur_ms == u64::MAX {
        spec = spec.header("never", "1");
    } else if dur_ms > 0 {
        spec = spec.header("sleep-ms", format!("{dur_ms}"));
    }
    if stream_busy {
        // an earlier call of the same caller occupies the only stream for the whole run; it carries
        // no deadline of its own (and is exempt from the caller's default through a huge header)
        let (a2, to) = (a.clone(), b.peer_id());
        tokio::spawn(async move {
            let _ = a2.rpc(to, Sim::request("blocker").with_header("never", "1")).await;
        });
        tokio::time::sleep(ms(50)).await;
    }
    let t0 = sim.now_us();
    let typed = unit["typed"].as_bool().unwrap_or(false);
    let fut = async {
        if typed {
            // through the typed client every generated client is built on
            let peer = a.peer(b.peer_id()).expect("peer");
            let mut client = anemo::rpc::client::Rpc::new(peer);
            let r: Result<anemo::Response<bytes::Bytes>, anemo::rpc::Status> = client.unary(spec.to_request(), anemo::rpc::codec::IdentityCodec::new("bytes")).await;
            match r {
                Ok(resp) => Ok(format!("{:?}", resp.status())),
                // an error response of the serving side comes back as its status
                Err(st) if st.status() != anemo::types::response::StatusCode::Unknown => Ok(format!("{:?}", st.status())),
                Err(st) => Err(format!("{st:?}")),
            }
        } else if via_peer {
            let mut peer = a.peer(b.peer_id()).expect("peer");
            let r = peer.rpc(spec.to_request()).await;
            r.map(|resp| format!("{:?}", resp.status())).map_err(|e| format!("{e:#}"))
        } else {
            let r = a.rpc(b.peer_id(), spec.to_request()).await;
            r.map(|resp| format!("{:?}", resp.status())).map_err(|e| format!("{e:#}"))
        }
    };
    match tokio::time::timeout(ms(HORIZON_MS), fut).await {
        Ok(r) => {
            obs.result = r;
            obs.t_end_us = sim.now_us() - t0;
        }
        Err(_) => {
            obs.pending_at_horizon = true;
            obs.t_end_us = sim.now_us() - t0;
        }
    }
    // let the callee finish whatever it is doing (bounded by the longest finite duration)
    tokio::time::sleep(ms(1_500)).await;
    obs.starts = sim.svc.started("t");
    obs.handler_start_us = sim.svc.start_at("t").map(|t| t.saturating_sub(t0));
    obs.handler_drop_us = sim.svc.dropped_at("t").map(|t| t.saturating_sub(t0));
    obs.handler_completed = sim.svc.completed("t");
    obs.handler_complete_us = sim.svc.events.lock().unwrap().iter().find_map(|e| match e {
        SvcEvent::Complete { id, t_us, .. } if id == "t" => Some(t_us.saturating_sub(t0)),
        _ => None,
    });
    obs.saw_user_header = sim
        .svc
        .requests
        .lock()
        .unwrap()
        .iter()
        .find(|r| r.headers.get("id").map(|s| s.as_str()) == Some("t"))
        .map(|r| r.headers.contains_key("h-user"));
    obs
}

fn judge(unit: &Value, header: &str, dur_ms: u64, o: &Obs) -> Judged {
    let mut v: Vec<(String, String)> = vec![];
    if let Some(e) = &o.setup_error {
        v.push(("setup".into(), e.clone()));
        return Judged { class: "setup-error".into(), violations: v, sample: None };
    }
    let lat_ms = unit["lat_ms"].as_u64().unwrap();
    let l = lat_ms as u128 * NS_PER_MS;
    let h = ref_parse(header);
    let s = min_opt(h, opt(&unit["in_callee"]).map(|m| m as u128 * NS_PER_MS));
    // a header stamped by the caller's own middleware is not seen by the caller's timeout layer
    let stamp = unit["stamp"].as_bool().unwrap_or(false);
    let c = min_opt(if stamp { None } else { h }, opt(&unit["out_caller"]).map(|m| m as u128 * NS_PER_MS));
    let d: Option<u128> = (dur_ms != u64::MAX).then_some(dur_ms as u128 * NS_PER_MS);
    let tol = 2 * NS_PER_MS;
    // what the serving side does
    let served: Option<(u128, &str)> = match (d, s) {
        (None, None) => None,
        (Some(d), None) => Some((d, "Success")),
        (None, Some(s)) => Some((s, "RequestTimeout")),
        (Some(d), Some(s)) => {
            if d + tol <= s {
                Some((d, "Success"))
            } else if s + tol <= d {
                Some((s, "RequestTimeout"))
            } else {
                Some((d.min(s), "tie"))
            }
        }
    };
    let stream_busy = unit["stream_busy"].as_bool().unwrap_or(false);
    // with the callee's only stream taken by an earlier call the request cannot be sent at all:
    // the caller's deadline is all that can end the call
    let served = if stream_busy { None } else { served };
    let resp_arrival = served.map(|(t, _)| 2 * l + t);
    let t_end = o.t_end_us as u128 * 1000;
    let ctx = format!(
        "[in_callee={:?} out_caller={:?} in_caller={:?} out_callee={:?} header={header:?} handler={} lat={lat_ms}ms user_layer={} via_peer={}{} stream_busy={stream_busy} header_stamped_by_user_layer={stamp}]",
        opt(&unit["in_callee"]), opt(&unit["out_caller"]), opt(&unit["in_caller"]), opt(&unit["out_callee"]),
        if dur_ms == u64::MAX { "never".to_string() } else { format!("{dur_ms}ms") },
        unit["user_layer"], unit["via_peer"], if unit["typed"].as_bool().unwrap_or(false) { " through rpc::client::Rpc::unary" } else { "" }
    );
    enum Exp {
        CallerTimeout(u128),
        Response(u128, &'static str),
        Pending,
        Tie,
    }
    let exp = match (c, resp_arrival) {
        (None, None) => Exp::Pending,
        (Some(c), None) => Exp::CallerTimeout(c),
        (None, Some(r)) => Exp::Response(r, served.unwrap().1),
        (Some(c), Some(r)) => {
            if c + tol < r {
                Exp::CallerTimeout(c)
            } else if r + tol < c {
                Exp::Response(r, served.unwrap().1)
            } else {
                Exp::Tie
            }
        }
    };
    let horizon = HORIZON_MS as u128 * NS_PER_MS;
    let got = if o.pending_at_horizon {
        "pending".to_string()
    } else {
        match &o.result {
            Ok(s) => format!("Ok({s})"),
            Err(e) => format!("Err({e})"),
        }
    };
    let class;
    match exp {
        Exp::Tie => {
            class = "excluded(tie)".to_string();
        }
        Exp::Pending => {
            class = "pending-forever".to_string();
            if !o.pending_at_horizon {
                v.push(("deadline-invented".into(), format!("{ctx} no deadline applies and the handler never answers, yet the call ended: {got} after {} ms", t_end / NS_PER_MS)));
            }
        }
        Exp::CallerTimeout(c) if c >= horizon => {
            class = "caller-deadline-beyond-horizon".to_string();
            if !o.pending_at_horizon {
                v.push(("caller-deadline".into(), format!("{ctx} expected the call to be still pending at the horizon, got {got}")));
            }
        }
        Exp::CallerTimeout(c) => {
            class = "caller-timeout".to_string();
            let ok = matches!(&o.result, Err(e) if e.contains("Timeout expired")) && !o.pending_at_horizon;
            if !ok {
                v.push(("caller-deadline".into(), format!("{ctx} expected a timeout error at the caller after {} ms, got {got} after {} ms", c / NS_PER_MS, t_end / NS_PER_MS)));
            } else if !(t_end + tol >= c && t_end <= c + tol) {
                v.push(("caller-deadline-time".into(), format!("{ctx} caller timed out after {} us, expected {} us", t_end / 1000, c / 1000)));
            }
        }
        Exp::Response(r, _) if r >= horizon => {
            class = "response-beyond-horizon".to_string();
            if !o.pending_at_horizon {
                v.push(("serving-deadline".into(), format!("{ctx} expected the call to be still pending at the horizon, got {got}")));
            }
        }
        Exp::Response(r, st) => {
            class = format!("response-{st}");
            if st != "tie" {
                let ok = matches!(&o.result, Ok(s) if s == st) && !o.pending_at_horizon;
                if !ok {
                    v.push(("serving-deadline".into(), format!("{ctx} expected Ok({st}) after {} ms, got {got} after {} ms", r / NS_PER_MS, t_end / NS_PER_MS)));
                } else if !(t_end + tol >= r && t_end <= r + 2 * tol) {
                    v.push(("serving-deadline-time".into(), format!("{ctx} response ({st}) arrived after {} us, expected {} us", t_end / 1000, r / 1000)));
                }
            }
        }
    }
    // serving side: the handler is cut off at its deadline and a shorter-running one completes
    let caller_gone_at = c.map(|c| c + l); // when the cancellation can reach the callee
    let request_sure_to_arrive = !stream_busy && c.map(|c| c > l + tol).unwrap_or(true);
    if stream_busy && o.starts != 0 {
        v.push(("handler-starts".into(), format!("{ctx} the handler started although the callee had no free stream")));
    }
    if request_sure_to_arrive {
        if o.starts != 1 {
            v.push(("handler-starts".into(), format!("{ctx} the handler was started {} times", o.starts)));
        }
        if let (Some(start), Some((t, st))) = (o.handler_start_us.map(|u| u as u128 * 1000), served) {
            let cancelled_first = caller_gone_at.map(|g| g + tol < start + t).unwrap_or(false);
            let cancel_tie = caller_gone_at.map(|g| g + tol >= start + t && g <= start + t + tol).unwrap_or(false);
            // beyond the horizon the harness itself abandons the call
            let beyond = start + t + tol >= horizon;
            if !cancelled_first && !cancel_tie && !beyond {
                if st == "Success" {
                    match o.handler_complete_us {
                        Some(tc) if (tc as u128 * 1000) + tol >= start + t && (tc as u128 * 1000) <= start + t + tol => {}
                        other => v.push(("handler-cut-short".into(), format!("{ctx} the handler needs less than its deadline but did not complete normally (completed at {other:?} us, started at {} us, dropped at {:?})", start / 1000, o.handler_drop_us))),
                    }
                } else if st == "RequestTimeout" {
                    match o.handler_drop_us {
                        Some(td) if (td as u128 * 1000) + tol >= start + t && (td as u128 * 1000) <= start + t + tol && !o.handler_completed => {}
                        other => v.push(("handler-not-dropped".into(), format!("{ctx} the handler exceeds its deadline of {} ms but was not dropped at it (dropped at {other:?} us, started at {} us, completed={})", t / NS_PER_MS, start / 1000, o.handler_completed))),
                    }
                }
            }
        }
    }
    if unit["user_layer"].as_bool().unwrap() && o.saw_user_header == Some(false) {
        v.push(("setup".into(), format!("{ctx} user outbound layer was not applied")));
    }
    Judged {
        class: format!("{class} handler_done={} dropped={}", o.handler_completed, o.handler_drop_us.is_some()),
        violations: v,
        sample: Some(json!({"case": ctx, "got": got, "t_end_us": o.t_end_us, "handler_start_us": o.handler_start_us, "handler_drop_us": o.handler_drop_us})),
    }
}

impl Check for C11 {
    fn meta(&self, _tier: Tier) -> CheckMeta {
        CheckMeta {
            property: "C11",
            level: "exploration",
            rule: "full cross product of (callee inbound default, caller outbound default) in {none,0,50ms,200ms}^2, header in a 12-value menu (absent, 0, 1, 60ms, 100ms, 10s, u64::MAX, overflow, non-numeric...), handler duration in {0,30ms,120ms,1s,never}, latency {2,5}ms, with/without a user outbound layer (given to the builder after the configuration at 2 ms latency, before it at 5 ms; which in a third variant stamps the timeout header itself, below the caller's own timeout layer, so that only the serving side can enforce it), via Network::rpc, Peer::rpc and the typed client rpc::client::Rpc::unary on a Peer; thorough also crosses the settings of the other two ends; each case is one whole-system execution in virtual time compared with the closed-form min() reference; distinct = distinct (expected outcome kind, handler fate)".into(),
            assumptions: vec![
                "virtual time: completion instants are compared to the millisecond; cases whose two candidate deadlines lie within 2 ms of each other are excluded as ties and counted".into(),
            ],
            exhaustive: true,
        }
    }

    fn units(&self, tier: Tier) -> Vec<Value> {
        let mut u = vec![];
        let other: Vec<(Option<u64>, Option<u64>)> = match tier {
            Tier::Quick => vec![(None, None), (Some(50), Some(50)), (Some(200), None), (None, Some(200))],
            Tier::Thorough => DEFAULTS.iter().flat_map(|a| DEFAULTS.iter().map(move |b| (*a, *b))).collect(),
        };
        for in_callee in DEFAULTS {
            for out_caller in DEFAULTS {
                for (in_caller, out_callee) in &other {
                    for lat in [2u64, 5] {
                        if lat == 2 {
                            // the typed client (what generated clients are made of) on top of a Peer
                            u.push(json!({"in_callee":in_callee,"out_caller":out_caller,"in_caller":in_caller,"out_callee":out_callee,"lat_ms":lat,"user_layer":false,"via_peer":true,"typed":true}));
                        }
                        for (user_layer, via_peer, stamp) in [(false, false, false), (true, true, false), (true, false, true)] {
                            let _ = tier;
                            u.push(json!({"in_callee":in_callee,"out_caller":out_caller,"in_caller":in_caller,"out_callee":out_callee,"lat_ms":lat,"user_layer":user_layer,"via_peer":via_peer,"stamp":stamp}));
                            // the same with the callee's only request stream occupied by an earlier call
                            // (only where that earlier call is not itself cut off by a default)
                            if out_caller.is_none() && in_callee.is_none() && in_caller.is_none() && out_callee.is_none() {
                                u.push(json!({"in_callee":in_callee,"out_caller":out_caller,"in_caller":in_caller,"out_callee":out_callee,"lat_ms":lat,"user_layer":user_layer,"via_peer":via_peer,"stream_busy":true}));
                            }
                        }
                    }
                }
            }
        }
        u
    }

    fn run_unit(&self, _tier: Tier, unit: &Value, out: &mut UnitResult) {
        for header in HEADERS {
            for dur in DURATIONS {
                let (u, h) = (unit.clone(), header.to_string());
                let case = json!({"unit": unit, "header": header, "dur_ms": dur});
                let unit2 = unit.clone();
                explore_sim(
                    out,
                    crate::seed(),
                    &case,
                    2_000,
                    0,
                    1,
                    true,
                    move |sim| scenario(sim, u.clone(), h.clone(), dur).boxed(),
                    |o: &Obs, _p, _c| judge(&unit2, header, dur, o),
                );
            }
        }
    }

    fn replay(&self, replay: &Value) -> String {
        let case = &replay["unit"];
        let unit = case["unit"].clone();
        let header = case["header"].as_str().unwrap().to_string();
        let dur = case["dur_ms"].as_u64().unwrap();
        let seed = replay["seed"].as_u64().unwrap_or(1);
        let (u, h) = (unit.clone(), header.clone());
        let o = sim_exec(seed, &[], 2_000, move |sim| scenario(sim, u, h, dur).boxed());
        match o.run {
            Some(r) => {
                let j = judge(&unit, &header, dur, &r.obs);
                format!("case {case}\nobserved {:?}\nclass {}\nviolations {:?}\npanics {:?}", r.obs, j.class, j.violations, o.panics)
            }
            None => format!("execution hung={} panics={:?}", o.hung, o.panics),
        }
    }

    fn finish(&self, _tier: Tier, total: &mut UnitResult) -> Map<String, Value> {
        let kinds: std::collections::BTreeSet<&str> =
            total.classes.keys().map(|k| k.split(' ').next().unwrap()).collect();
        for need in ["caller-timeout", "response-Success", "response-RequestTimeout", "pending-forever"] {
            if !kinds.contains(need) {
                total.machinery_errors.push(format!("vacuous: no case of kind {need} was exercised"));
            }
        }
        Map::new()
    }
}
