//! C09 — connection views are eventually mutual; disconnects propagate.
//! Exhaustive histories over three real networks (see `histories.rs`), with more than the idle
//! timeout of fault-free connectivity after every step.

use crate::histories;
use crate::report::{CheckMeta, UnitResult};
use crate::{Check, Tier};
use serde_json::{json, Map, Value};

pub struct C09;

impl Check for C09 {
    fn meta(&self, _tier: Tier) -> CheckMeta {
        CheckMeta {
            property: "C09",
            level: "fault_enumeration",
            rule: "every history over 3 real networks of {dial i->j, disconnect i-/->j, black-hole a link both ways for 1 s or idle timeout + 1 s, black-hole one direction for idle timeout + 1 s, shut down and restart a node with the same key} up to the depth (idle timeout 3 s, keep-alive 1 s); after every step and idle timeout + 1 s without faults: i lists j iff j lists i, and an RPC to every listed peer succeeds; disconnect is immediate with LostPeer(Requested) queued before it returns; distinct = distinct (op outcomes, final listing sizes)".into(),
            assumptions: vec!["quinn's idle timer and keep-alives behave as configured (executed, trusted)".into(), "three nodes".into()],
            exhaustive: true,
        }
    }
    fn units(&self, tier: Tier) -> Vec<Value> {
        histories::units(tier, "C09")
    }
    fn run_unit(&self, tier: Tier, unit: &Value, out: &mut UnitResult) {
        histories::run_unit(tier, unit, out, "C09")
    }
    fn replay(&self, replay: &Value) -> String {
        histories::replay(replay, "C09")
    }
    fn finish(&self, _tier: Tier, total: &mut UnitResult) -> Map<String, Value> {
        let mut m = Map::new();
        let connected = total.classes.keys().filter(|k| k.contains('|') && !k.ends_with("|000")).count();
        m.insert("classes_ending_connected".into(), json!(connected));
        if connected < 3 {
            total.machinery_errors.push("vacuous: almost no history ends with any connection".into());
        }
        m
    }
}
