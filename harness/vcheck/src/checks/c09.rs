//! C09 — connection views are eventually mutual; disconnects propagate.
//! Exhaustive histories over three real networks (see `histories.rs`), with more than the idle
//! timeout of fault-free connectivity after every step.

use crate::histories;
use crate::report::{CheckMeta, UnitResult};
use crate::{Check, Tier};
use serde_json::{json, Map, Value};

pub struct C09;

// ------------------------------------------------------------------------------------------
// free-running pass: a handler inside a NON-YIELDING section when its connection ends. On the
// single thread of the simulation such a section can never be "in progress" while the connection
// task runs, so this one behaviour is sampled on a real multi-thread runtime, real sockets and
// real time. Sound by margin: the handler blocks 4 s, the loss must be reported within 2.5 s.
// ------------------------------------------------------------------------------------------

fn free_running(unit: &Value, out: &mut UnitResult) {
    use anemo::types::PeerEvent;
    use anemo::{Network, Request, Response};
    use bytes::Bytes;
    use std::time::{Duration, Instant};
    let how = unit["how"].as_str().unwrap().to_string();
    out.evaluations += 1;
    let rt = tokio::runtime::Builder::new_multi_thread().worker_threads(3).enable_all().build().unwrap();
    let how2 = how.clone();
    let verdict: Result<String, (String, String)> = rt.block_on(async move {
        let how = how2;
        let mk = |key: u8, blocking: bool| {
            let svc = tower::service_fn(move |req: Request<Bytes>| async move {
                if blocking && req.route() == "/busy" {
                    // CPU-bound / blocking work that does not reach an await point
                    tokio::task::block_in_place(|| std::thread::sleep(Duration::from_secs(4)));
                }
                Ok::<_, std::convert::Infallible>(Response::new(Bytes::new()))
            });
            let mut c = anemo::Config::default();
            let mut q = anemo::QuicConfig::default();
            q.max_idle_timeout_ms = Some(1_500);
            q.keep_alive_interval_ms = Some(400);
            c.quic = Some(q);
            Network::bind("127.0.0.1:0").private_key([key; 32]).server_name("free").config(c).start(svc).map_err(|e| ("setup".to_string(), e.to_string()))
        };
        let a = mk(41, false)?;
        let b = mk(42, true)?;
        let (mut eb, _) = b.subscribe().map_err(|e| ("setup".to_string(), e.to_string()))?;
        a.connect(b.local_addr()).await.map_err(|e| ("setup".to_string(), format!("connect: {e}")))?;
        let (a2, bid) = (a.clone(), b.peer_id());
        tokio::spawn(async move {
            let _ = a2.rpc(bid, Request::new(Bytes::new()).with_route("/busy")).await;
        });
        tokio::time::sleep(Duration::from_millis(300)).await;
        // the connection ends while B's handler is inside its blocking section
        let t0 = Instant::now();
        match how.as_str() {
            "disconnect" => {
                let _ = a.disconnect(bid);
            }
            _ => {
                let _ = a.shutdown().await;
            }
        }
        let deadline = Duration::from_millis(2_500);
        let mut lost_after = None;
        while t0.elapsed() < deadline {
            match tokio::time::timeout(Duration::from_millis(50), eb.recv()).await {
                Ok(Ok(PeerEvent::LostPeer(p, _))) if p == a.peer_id() => {
                    lost_after = Some(t0.elapsed());
                    break;
                }
                _ => {}
            }
        }
        let still_listed = b.peers().contains(&a.peer_id());
        match lost_after {
            Some(_) if !still_listed => Ok(format!("free-running {how} loss-reported-in-time")),
            _ => Err(("loss-not-reported".to_string(), format!("[free-running, multi-thread runtime] B's handler was inside a blocking section (4 s) when A ended the connection ({how}); {} ms later B has {} reported LostPeer(A) and {} A (idle timeout 1.5 s)", t0.elapsed().as_millis(), if lost_after.is_some() { "" } else { "not" }, if still_listed { "still lists" } else { "no longer lists" }))),
        }
    });
    drop(rt);
    match verdict {
        Ok(c) => out.class(c),
        Err((k, m)) if k == "setup" => out.machinery_errors.push(format!("free-running unit: {m}")),
        Err((k, m)) => out.violation(k, m, json!({"unit": unit})),
    }
    out.count("free_running_trials", 1);
}

impl Check for C09 {
    fn meta(&self, _tier: Tier) -> CheckMeta {
        CheckMeta {
            property: "C09",
            level: "fault_enumeration",
            rule: "every history over 3 real networks of {dial i->j, disconnect i-/->j, black-hole a link both ways for 1 s or idle timeout + 1 s, black-hole one direction for idle timeout + 1 s, shut down and restart a node with the same key, a request whose application handler panics} up to the depth (idle timeout 3 s, keep-alive 1 s); after every step and idle timeout + 1 s without faults: i lists j iff j lists i, and an RPC to every listed peer succeeds; disconnect is immediate with LostPeer(Requested) queued before it returns; distinct = distinct (op outcomes, final listing sizes)".into(),
            assumptions: vec!["quinn's idle timer and keep-alives behave as configured (executed, trusted)".into(), "three nodes".into(), "a supplementary FREE-RUNNING pass (2 scenarios on a multi-thread runtime in real time: a handler inside a 4 s blocking section when its connection ends must not delay the report of the loss beyond 2.5 s) samples the one behaviour the single-thread simulation cannot host; counted under free_running_trials, not part of the exhaustive claim".into()],
            exhaustive: true,
        }
    }
    fn units(&self, tier: Tier) -> Vec<Value> {
        let mut u = histories::units(tier, "C09");
        for how in ["disconnect", "shutdown"] {
            u.insert(0, json!({"kind":"free-running","how":how}));
        }
        // subscriptions taken on another thread while the peer set changes (loom, harness/lockx)
        u.push(json!({"kind":"threads","tier":tier.as_str(),"subset":"subscribe"}));
        u
    }
    fn run_unit(&self, tier: Tier, unit: &Value, out: &mut UnitResult) {
        if unit["kind"] == "free-running" {
            return free_running(unit, out);
        }
        if unit["kind"] == "threads" {
            return super::c04::run_threads(unit, out);
        }
        histories::run_unit(tier, unit, out, "C09")
    }
    fn replay(&self, replay: &Value) -> String {
        if replay["unit"]["kind"] == "free-running" {
            let mut out = UnitResult::default();
            free_running(&replay["unit"], &mut out);
            return format!("free-running unit re-run (timing is not reproducible): {:?} {:?}", out.classes, out.violations.iter().map(|v| &v.message).collect::<Vec<_>>());
        }
        histories::replay(replay, "C09")
    }
    fn finish(&self, _tier: Tier, total: &mut UnitResult) -> Map<String, Value> {
        let mut m = Map::new();
        let connected = total.classes.keys().filter(|k| k.contains('|') && !k.ends_with("|000")).count();
        m.insert("classes_ending_connected".into(), json!(connected));
        if connected < 3 {
            total.machinery_errors.push("vacuous: almost no history ends with any connection".into());
        }
        m
    }
}
