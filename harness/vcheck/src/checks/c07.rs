//! C07 — wire format: exact layout, lossless round trip, total decoder.
//! Bounded-exhaustive input sweeps of the real codecs over in-memory streams, against a reference
//! encoder/decoder written from the statement.

use crate::report::{CheckMeta, UnitResult};
use crate::{Check, Tier};
use anemo::types::response::StatusCode;
use anemo::types::Version;
use anemo::verif::wire;
use anemo::{Request, Response};
use bytes::Bytes;
use serde_json::{json, Map, Value};
use std::collections::BTreeMap;
use std::pin::Pin;
use std::task::{Context, Poll};
use tokio::io::{AsyncRead, ReadBuf};

pub struct C07;

const STATUS_CODES: [u16; 8] = [200, 400, 404, 408, 429, 500, 505, 520];

// ---------------- reference codec (from the statement) ----------------

fn ref_map(h: &[(String, String)]) -> Vec<u8> {
    let mut v = (h.len() as u64).to_le_bytes().to_vec();
    for (k, val) in h {
        v.extend_from_slice(&(k.len() as u64).to_le_bytes());
        v.extend_from_slice(k.as_bytes());
        v.extend_from_slice(&(val.len() as u64).to_le_bytes());
        v.extend_from_slice(val.as_bytes());
    }
    v
}

fn ref_frames(version: u16, header: &[u8], body: &[u8]) -> Vec<u8> {
    let mut out = b"anemo".to_vec();
    out.extend_from_slice(&version.to_be_bytes());
    out.push(0);
    out.extend_from_slice(&(header.len() as u32).to_be_bytes());
    out.extend_from_slice(header);
    out.extend_from_slice(&(body.len() as u32).to_be_bytes());
    out.extend_from_slice(body);
    out
}

fn ref_encode_request(route: &str, headers: &[(String, String)], body: &[u8]) -> Vec<u8> {
    let mut h = (route.len() as u64).to_le_bytes().to_vec();
    h.extend_from_slice(route.as_bytes());
    h.extend_from_slice(&ref_map(headers));
    ref_frames(1, &h, body)
}

fn ref_encode_response(status: u16, headers: &[(String, String)], body: &[u8]) -> Vec<u8> {
    let mut h = status.to_le_bytes().to_vec();
    h.extend_from_slice(&ref_map(headers));
    ref_frames(1, &h, body)
}

// ---------------- a reader that hands data out in chunks with Pending in between ----------------

struct Chunked<'a> {
    data: &'a [u8],
    cuts: Vec<usize>,
    pos: usize,
    pending_next: bool,
}

impl AsyncRead for Chunked<'_> {
    fn poll_read(mut self: Pin<&mut Self>, cx: &mut Context<'_>, buf: &mut ReadBuf<'_>) -> Poll<std::io::Result<()>> {
        if self.pos >= self.data.len() {
            return Poll::Ready(Ok(())); // EOF
        }
        if self.pending_next {
            self.pending_next = false;
            cx.waker().wake_by_ref();
            return Poll::Pending;
        }
        let next_cut = self.cuts.iter().copied().find(|c| *c > self.pos).unwrap_or(self.data.len());
        let n = (next_cut - self.pos).min(buf.remaining());
        let (p, d) = (self.pos, self.data);
        buf.put_slice(&d[p..p + n]);
        self.pos += n;
        self.pending_next = true;
        Poll::Ready(Ok(()))
    }
}

fn rt() -> tokio::runtime::Runtime {
    tokio::runtime::Builder::new_current_thread().build().unwrap()
}

type Decoded = (String, BTreeMap<String, String>, Vec<u8>, usize);

fn decode_request(rt: &tokio::runtime::Runtime, bytes: &[u8], cuts: Vec<usize>) -> Result<Decoded, String> {
    let cfg = anemo::Config::default();
    let mut r = Chunked { data: bytes, cuts, pos: 0, pending_next: false };
    rt.block_on(async { wire::read_request(&mut r, &cfg).await })
        .map(|q| {
            let ext = q.extensions().len();
            let route = q.route().to_string();
            let headers = q.headers().iter().map(|(k, v)| (k.clone(), v.clone())).collect();
            (route, headers, q.into_body().to_vec(), ext)
        })
        .map_err(|e| e.to_string())
}

fn decode_response(rt: &tokio::runtime::Runtime, bytes: &[u8], cuts: Vec<usize>) -> Result<(u16, BTreeMap<String, String>, Vec<u8>, usize), String> {
    let cfg = anemo::Config::default();
    let mut r = Chunked { data: bytes, cuts, pos: 0, pending_next: false };
    rt.block_on(async { wire::read_response(&mut r, &cfg).await })
        .map(|q| {
            let ext = q.extensions().len();
            let st = q.status().to_u16();
            let headers = q.headers().iter().map(|(k, v)| (k.clone(), v.clone())).collect();
            (st, headers, q.into_body().to_vec(), ext)
        })
        .map_err(|e| e.to_string())
}

fn encode_request(rt: &tokio::runtime::Runtime, route: &str, headers: &[(String, String)], body: &[u8], with_ext: bool) -> Result<Vec<u8>, String> {
    let cfg = anemo::Config::default();
    let mut q = Request::new(Bytes::copy_from_slice(body)).with_route(route);
    for (k, v) in headers {
        q.headers_mut().insert(k.clone(), v.clone());
    }
    if with_ext {
        q.extensions_mut().insert(anemo::PeerId([7; 32]));
        q.extensions_mut().insert(anemo::Direction::Outbound);
        q.extensions_mut().insert(String::from("local only"));
    }
    let mut out: Vec<u8> = vec![];
    rt.block_on(async { wire::write_request(&mut out, &cfg, q).await }).map_err(|e| e.to_string())?;
    Ok(out)
}

fn encode_response(rt: &tokio::runtime::Runtime, status: StatusCode, headers: &[(String, String)], body: &[u8], with_ext: bool) -> Result<Vec<u8>, String> {
    let cfg = anemo::Config::default();
    let mut q = Response::new(Bytes::copy_from_slice(body)).with_status(status);
    for (k, v) in headers {
        q.headers_mut().insert(k.clone(), v.clone());
    }
    if with_ext {
        q.extensions_mut().insert(anemo::PeerId([9; 32]));
        q.extensions_mut().insert(String::from("local only"));
    }
    let mut out: Vec<u8> = vec![];
    rt.block_on(async { wire::write_response(&mut out, &cfg, q).await }).map_err(|e| e.to_string())?;
    Ok(out)
}

/// The route a serving peer sees when a remote sends `route`: through the real request encoder
/// and decoder (used by C16 so that routing is judged on what arrives, not on what was meant).
pub fn route_via_wire(rt: &tokio::runtime::Runtime, route: &str) -> Result<String, String> {
    let enc = encode_request(rt, route, &[], b"", false)?;
    Ok(decode_request(rt, &enc, vec![])?.0)
}

pub fn wire_runtime() -> tokio::runtime::Runtime {
    rt()
}

fn routes(max_len: usize) -> Vec<String> {
    let alpha = ['/', 'a', 'é', '\0', ' '];
    let mut out = vec![String::new()];
    let mut layer = vec![String::new()];
    for _ in 0..max_len {
        let mut next = vec![];
        for s in &layer {
            for c in alpha {
                let mut t = s.clone();
                t.push(c);
                next.push(t);
            }
        }
        out.extend(next.iter().cloned());
        layer = next;
    }
    out.push("/".to_string() + &"x".repeat(1024));
    out
}

fn header_maps() -> Vec<Vec<(String, String)>> {
    let menu: Vec<(String, String)> = vec![("k".into(), "v".into()), ("".into(), "".into()), ("timeout".into(), "18446744073709551615".into()), ("é\0".into(), " ".into()), ("big".into(), "y".repeat(300)), ("K".into(), "upper-case name".into())];
    let mut out = vec![vec![]];
    for i in 0..menu.len() {
        out.push(vec![menu[i].clone()]);
        for j in (i + 1)..menu.len() {
            out.push(vec![menu[i].clone(), menu[j].clone()]);
            for k in (j + 1)..menu.len() {
                out.push(vec![menu[i].clone(), menu[j].clone(), menu[k].clone()]);
            }
        }
    }
    out
}

fn bodies() -> Vec<Vec<u8>> {
    [0usize, 1, 255, 256, 65_536].iter().map(|n| crate::world::pattern_body(*n as u64, *n).to_vec()).collect()
}

fn catch<T>(f: impl FnOnce() -> T) -> Result<T, String> {
    crate::pool::crumb(|| "codec sweep (see the unit for the input family)".to_string());
    std::panic::catch_unwind(std::panic::AssertUnwindSafe(f)).map_err(|p| crate::exec::panic_message(&p))
}

/// Runs in a process of its own (`vcheck --c07-configs <order>`): a 64 KiB message is encoded and
/// decoded under the default configuration and a 100-byte one under a configuration limited to
/// 2 KiB frames, in the given order; one line of JSON per step on stdout.
pub fn configs_in_fresh_process(order: &str) {
    let rt = rt();
    let limited = {
        let mut c = anemo::Config::default();
        c.max_frame_size = Some(2048);
        c
    };
    let default = anemo::Config::default();
    let steps: Vec<(&str, &anemo::Config, usize)> = match order {
        "limited-first" => vec![("limited", &limited, 100), ("default", &default, 65_536), ("limited", &limited, 100)],
        _ => vec![("default", &default, 65_536), ("limited", &limited, 100), ("default", &default, 65_536)],
    };
    for (name, cfg, len) in steps {
        let body: Vec<u8> = (0..len).map(|i| (i % 251) as u8).collect();
        let r: Result<(), String> = (|| {
            let q = Request::new(Bytes::from(body.clone())).with_route("/r").with_header("k", "v");
            let mut enc: Vec<u8> = vec![];
            rt.block_on(async { wire::write_request(&mut enc, cfg, q).await }).map_err(|e| format!("encode: {e}"))?;
            let mut rd = Chunked { data: &enc, cuts: vec![], pos: 0, pending_next: false };
            let back = rt.block_on(async { wire::read_request(&mut rd, cfg).await }).map_err(|e| format!("decode: {e}"))?;
            if back.route() != "/r" || back.body().as_ref() != body.as_slice() {
                return Err("round trip altered the message".into());
            }
            let p = Response::new(Bytes::from(body.clone())).with_header("k", "v");
            let mut enc: Vec<u8> = vec![];
            rt.block_on(async { wire::write_response(&mut enc, cfg, p).await }).map_err(|e| format!("encode response: {e}"))?;
            let mut rd = Chunked { data: &enc, cuts: vec![], pos: 0, pending_next: false };
            let back = rt.block_on(async { wire::read_response(&mut rd, cfg).await }).map_err(|e| format!("decode response: {e}"))?;
            if back.body().as_ref() != body.as_slice() {
                return Err("round trip altered the response".into());
            }
            Ok(())
        })();
        println!("{}", json!({"config": name, "len": len, "ok": r.is_ok(), "err": r.err()}));
    }
}

fn run(unit: &Value, tier: Tier, out: &mut UnitResult) {
    let rt = rt();
    let rp = |tag: &str, detail: Value| json!({"unit": unit, "case": tag, "detail": detail});
    match unit["kind"].as_str().unwrap() {
        "roundtrip" => {
            let bodies = bodies();
            let maps = header_maps();
            let routes = routes(tier.pick(3, 4));
            let part = unit["part"].as_u64().unwrap() as usize;
            let parts = unit["parts"].as_u64().unwrap() as usize;
            for (ri, route) in routes.iter().enumerate() {
                if ri % parts != part {
                    continue;
                }
                for (mi, h) in maps.iter().enumerate() {
                    for (bi, b) in bodies.iter().enumerate() {
                        if (bi >= 3 || mi > 6) && (ri + mi + bi) % 7 != 0 {
                            continue; // big bodies / big maps on a slice of the routes only
                        }
                        out.evaluations += 1;
                        let want: BTreeMap<String, String> = h.iter().cloned().collect();
                        let r = catch(|| {
                            let enc = encode_request(&rt, route, h, b, true)?;
                            if h.len() <= 1 {
                                let reference = ref_encode_request(route, h, b);
                                if enc != reference {
                                    return Err(format!("encoded bytes differ from the documented layout (route {route:?}, {} headers, body {} B): first difference at offset {:?}", h.len(), b.len(), enc.iter().zip(&reference).position(|(a, b)| a != b)));
                                }
                            }
                            let dec = decode_request(&rt, &enc, vec![])?;
                            if dec.0 != *route || dec.1 != want || dec.2 != *b {
                                return Err(format!("round trip altered the request (route {route:?} -> {:?}, headers {} -> {}, body {} -> {} B)", dec.0, want.len(), dec.1.len(), b.len(), dec.2.len()));
                            }
                            if dec.3 != 0 {
                                return Err(format!("{} local extension(s) travelled with the request", dec.3));
                            }
                            // bytes written by a reference implementation decode to the same value
                            let dec2 = decode_request(&rt, &ref_encode_request(route, h, b), vec![])?;
                            if dec2.0 != *route || dec2.1 != want || dec2.2 != *b {
                                return Err("reference-encoded bytes do not decode to the same request".into());
                            }
                            Ok(())
                        });
                        out.class(format!("request h{} b{}", h.len(), bi));
                        match r {
                            Ok(Ok(())) => {}
                            Ok(Err(e)) => out.violation("request-codec", e, rp("roundtrip", json!({"route": route, "headers": h, "body_len": b.len()}))),
                            Err(p) => out.violation("codec-panics", format!("request codec panicked: {p}"), rp("roundtrip", json!({"route": route}))),
                        }
                    }
                }
            }
            if part == 0 {
                for code in STATUS_CODES {
                    for h in maps.iter() {
                        for b in bodies.iter() {
                            out.evaluations += 1;
                            let want: BTreeMap<String, String> = h.iter().cloned().collect();
                            let r = catch(|| {
                                let st = StatusCode::new(code).map_err(|_| format!("status {code} rejected by StatusCode::new"))?;
                                let enc = encode_response(&rt, st, h, b, true)?;
                                if h.len() <= 1 && enc != ref_encode_response(code, h, b) {
                                    return Err(format!("encoded response bytes differ from the documented layout (status {code})"));
                                }
                                let dec = decode_response(&rt, &enc, vec![])?;
                                if dec.0 != code || dec.1 != want || dec.2 != *b || dec.3 != 0 {
                                    return Err(format!("round trip altered the response (status {code} -> {}, extensions {})", dec.0, dec.3));
                                }
                                let dec2 = decode_response(&rt, &ref_encode_response(code, h, b), vec![])?;
                                if dec2.0 != code || dec2.1 != want || dec2.2 != *b {
                                    return Err("reference-encoded bytes do not decode to the same response".into());
                                }
                                Ok(())
                            });
                            out.class(format!("response {code}"));
                            match r {
                                Ok(Ok(())) => {}
                                Ok(Err(e)) => out.violation("response-codec", e, rp("roundtrip", json!({"status": code}))),
                                Err(p) => out.violation("codec-panics", format!("response codec panicked: {p}"), rp("roundtrip", json!({"status": code}))),
                            }
                        }
                    }
                }
            }
        }
        "configs" => {
            // the codecs of two configurations used in one process, in both orders, each order in
            // a process of its own (whatever the codecs keep between calls starts empty)
            for order in ["limited-first", "default-first"] {
                out.evaluations += 1;
                let exe = std::env::current_exe().unwrap();
                let o = std::process::Command::new(exe).arg("--c07-configs").arg(order).output();
                match o {
                    Err(e) => out.machinery_errors.push(format!("cannot run the configs probe: {e}")),
                    Ok(o) => {
                        let text = String::from_utf8_lossy(&o.stdout).to_string();
                        let lines: Vec<Value> = text.lines().filter_map(|l| serde_json::from_str(l).ok()).collect();
                        if lines.len() != 3 {
                            out.violation("decoder-panics", format!("two configurations used {order} in one process: the process ended after {} of 3 steps ({})", lines.len(), String::from_utf8_lossy(&o.stderr).lines().last().unwrap_or("")), rp("configs", json!(order)));
                            continue;
                        }
                        for l in &lines {
                            if l["ok"] != true {
                                out.violation("request-codec", format!("two configurations used {order} in one process (a 2 KiB frame limit and the default): a {} byte message does not round-trip under the {} configuration: {}", l["len"], l["config"], l["err"]), rp("configs", json!(order)));
                            }
                        }
                        out.class(format!("configs {order}"));
                    }
                }
            }
        }
        "sizes" => {
            // buffer boundaries of the writers and readers: header frames and bodies whose encoded
            // size sits within a few bytes of every power of two from 2^7 to 2^20 (2^17 in quick),
            // reached through the route, through one header value, and through the body
            let part = unit["part"].as_u64().unwrap() as usize;
            let parts = unit["parts"].as_u64().unwrap() as usize;
            let top = tier.pick(17, 20);
            let mut sizes: Vec<usize> = vec![];
            for e in 7..=top {
                let p = 1usize << e;
                for d in -20i64..=4 {
                    sizes.push((p as i64 + d) as usize);
                }
            }
            if part == 0 {
                // a two-byte character at every byte offset of the route, of a header key and of
                // a header value (fixed-index string handling trips on one of them)
                for pos in 0..=130usize {
                    for tail in [0usize, 70] {
                        let text = format!("{}é{}", "x".repeat(pos), "y".repeat(tail));
                        out.evaluations += 1;
                        let (route, h) = (format!("/{text}"), vec![(text.clone(), text.clone())]);
                        let want: BTreeMap<String, String> = h.iter().cloned().collect();
                        let r = catch(|| {
                            let enc = encode_request(&rt, &route, &h, b"b", true)?;
                            if enc != ref_encode_request(&route, &h, b"b") {
                                return Err(format!("encoded request differs from the documented layout (two-byte character at byte offset {pos})"));
                            }
                            let dec = decode_request(&rt, &enc, vec![])?;
                            if dec.0 != route || dec.1 != want || dec.2 != b"b" {
                                return Err(format!("round trip altered a request with a two-byte character at byte offset {pos}"));
                            }
                            let enc = encode_response(&rt, StatusCode::new(200).unwrap(), &h, b"b", true)?;
                            let dec = decode_response(&rt, &enc, vec![])?;
                            if dec.0 != 200 || dec.1 != want || dec.2 != b"b" {
                                return Err(format!("round trip altered a response with a two-byte character at byte offset {pos}"));
                            }
                            Ok(())
                        });
                        out.class("utf8 offsets");
                        match r {
                            Ok(Ok(())) => {}
                            Ok(Err(e)) => out.violation("size-boundary", e, rp("sizes", json!({"utf8_offset": pos}))),
                            Err(p) => out.violation("codec-panics", format!("codec panicked with a two-byte character at byte offset {pos}: {p}"), rp("sizes", json!({"utf8_offset": pos}))),
                        }
                    }
                }
            }
            let mut n = 0usize;
            for (si, size) in sizes.iter().enumerate() {
                if si % parts != part {
                    continue;
                }
                for shape in 0..4usize {
                    n += 1;
                    let filler = |len: usize, c: char| -> String { std::iter::repeat(c).take(len).collect() };
                    // (route, headers, body)
                    let (route, h, b): (String, Vec<(String, String)>, Vec<u8>) = match shape {
                        0 => (format!("/{}", filler(size - 1, 'r')), vec![], b"x".to_vec()),
                        1 => ("/r".into(), vec![("k".into(), filler(*size, 'v'))], vec![]),
                        2 => ("/r".into(), vec![], crate::world::pattern_body(*size as u64, *size).to_vec()),
                        _ => (format!("/{}", filler(size / 2, 'r')), vec![(filler(size / 2, 'k'), "v".into())], crate::world::pattern_body(n as u64, 9000).to_vec()),
                    };
                    out.evaluations += 2;
                    let want: BTreeMap<String, String> = h.iter().cloned().collect();
                    let r = catch(|| {
                        let enc = encode_request(&rt, &route, &h, &b, true)?;
                        let reference = ref_encode_request(&route, &h, &b);
                        if enc != reference {
                            return Err(format!("encoded request differs from the documented layout (route {} B, header value {} B, body {} B): first difference at offset {:?} of {}", route.len(), h.first().map(|x| x.1.len()).unwrap_or(0), b.len(), enc.iter().zip(&reference).position(|(a, b)| a != b), reference.len()));
                        }
                        let dec = decode_request(&rt, &enc, vec![])?;
                        if dec.0 != route || dec.1 != want || dec.2 != b {
                            return Err(format!("round trip altered the request (route {} B, body {} B)", route.len(), b.len()));
                        }
                        // and in chunks that split the stream at the boundary itself
                        let dec = decode_request(&rt, &enc, vec![*size.min(&(enc.len() - 1))])?;
                        if dec.0 != route || dec.1 != want || dec.2 != b {
                            return Err(format!("chunked round trip altered the request (route {} B, body {} B)", route.len(), b.len()));
                        }
                        let st = StatusCode::new(STATUS_CODES[n % STATUS_CODES.len()]).map_err(|_| "status rejected".to_string())?;
                        let enc = encode_response(&rt, st, &h, &b, true)?;
                        if enc != ref_encode_response(st.to_u16(), &h, &b) {
                            return Err(format!("encoded response differs from the documented layout (header value {} B, body {} B)", h.first().map(|x| x.1.len()).unwrap_or(0), b.len()));
                        }
                        let dec = decode_response(&rt, &enc, vec![])?;
                        if dec.0 != st.to_u16() || dec.1 != want || dec.2 != b {
                            return Err(format!("round trip altered the response (header value {} B, body {} B)", h.first().map(|x| x.1.len()).unwrap_or(0), b.len()));
                        }
                        Ok(())
                    });
                    out.class(format!("sizes shape{shape}"));
                    match r {
                        Ok(Ok(())) => {}
                        Ok(Err(e)) => out.violation("size-boundary", e, rp("sizes", json!({"size": size, "shape": shape}))),
                        Err(p) => out.violation("codec-panics", format!("codec panicked at size {size} shape {shape}: {p}"), rp("sizes", json!({"size": size, "shape": shape}))),
                    }
                }
            }
        }
        "versions" => {
            // all 65536 version values x reserved byte classes; exactly (1, 0) is accepted
            for v in 0..=u16::MAX {
                for reserved in [0u8, 1, 0x80, 0xff] {
                    out.evaluations += 1;
                    let mut bytes = ref_encode_request("/r", &[], b"x");
                    bytes[5..7].copy_from_slice(&v.to_be_bytes());
                    bytes[7] = reserved;
                    let r = catch(|| decode_request(&rt, &bytes, vec![]).is_ok());
                    let expect = v == 1 && reserved == 0;
                    out.class(format!("version accepted={expect}"));
                    match r {
                        Ok(got) if got == expect => {}
                        Ok(got) => out.violation("version-acceptance", format!("preamble with version {v} and reserved byte {reserved}: accepted={got}, expected {expect}"), rp("versions", json!([v, reserved]))),
                        Err(p) => out.violation("codec-panics", format!("decoder panicked on version {v}: {p}"), rp("versions", json!([v, reserved]))),
                    }
                    // the handshake frame decoder must agree
                    let hv = catch(|| {
                        let mut r = Chunked { data: &bytes[..8], cuts: vec![], pos: 0, pending_next: false };
                        rt.block_on(async { wire::read_version_frame(&mut r).await }).is_ok()
                    });
                    if let Ok(got) = hv {
                        if got != expect {
                            out.violation("version-acceptance", format!("version frame with version {v}, reserved {reserved}: accepted={got}, expected {expect}"), rp("versions", json!([v, reserved])));
                        }
                    }
                }
            }
            // the version frame written for V1 is the documented 8 bytes
            let mut w: Vec<u8> = vec![];
            let _ = rt.block_on(async { wire::write_version_frame(&mut w, Version::V1).await });
            if w != b"anemo\x00\x01\x00" {
                out.violation("request-codec", format!("version frame is {w:?}"), rp("versions", json!("frame")));
            }
        }
        "status" => {
            for code in 0..=u16::MAX {
                out.evaluations += 1;
                let bytes = ref_encode_response(code, &[("k".into(), "v".into())], b"body");
                let r = catch(|| decode_response(&rt, &bytes, vec![]));
                let expect = STATUS_CODES.contains(&code);
                out.class(format!("status accepted={expect}"));
                match r {
                    Ok(Ok(d)) if expect && d.0 == code => {}
                    Ok(Err(_)) if !expect => {}
                    Ok(other) => out.violation("status-acceptance", format!("response with status {code}: decoded {:?}, expected accepted={expect}", other.map(|d| d.0)), rp("status", json!(code))),
                    Err(p) => out.violation("codec-panics", format!("decoder panicked on status {code}: {p}"), rp("status", json!(code))),
                }
            }
        }
        "mutate" => {
            // every strict prefix and every single-byte substitution of encoded samples
            let samples: Vec<(bool, Vec<u8>)> = vec![
                (true, ref_encode_request("/svc/method", &[("k".into(), "v".into())], b"hello world")),
                (true, ref_encode_request("", &[], b"")),
                (true, ref_encode_request("/é", &[("a".into(), "".into()), ("timeout".into(), "5".into())], &[0u8; 300])),
                (false, ref_encode_response(200, &[("status-message".into(), "ok".into())], b"resp")),
                (false, ref_encode_response(404, &[], b"")),
            ];
            let si = unit["sample"].as_u64().unwrap() as usize;
            let (is_req, bytes) = &samples[si];
            let dec = |b: &[u8], cuts: Vec<usize>| -> Result<Result<String, String>, String> {
                catch(|| if *is_req { decode_request(&rt, b, cuts).map(|d| format!("{d:?}")) } else { decode_response(&rt, b, cuts).map(|d| format!("{d:?}")) })
            };
            let baseline = dec(bytes, vec![]);
            if !matches!(baseline, Ok(Ok(_))) {
                out.violation("request-codec", format!("sample {si} does not decode: {baseline:?}"), rp("mutate", json!(si)));
                return;
            }
            for cut in 0..bytes.len() {
                out.evaluations += 1;
                out.class("strict-prefix");
                match dec(&bytes[..cut], vec![]) {
                    Ok(Err(_)) => {}
                    Ok(Ok(_)) => out.violation("prefix-accepted", format!("the {cut}-byte strict prefix of a {}-byte message decoded successfully", bytes.len()), rp("prefix", json!([si, cut]))),
                    Err(p) => out.violation("codec-panics", format!("decoder panicked on a {cut}-byte prefix: {p}"), rp("prefix", json!([si, cut]))),
                }
            }
            // 5-byte tag at Hamming distance 1 and every other preamble substitution must be rejected
            let values: Vec<u8> = (0..=255u8).collect();
            // preamble + length prefix + header region (quick) / the whole message (thorough)
            let structural = tier.pick(bytes.len().min(8 + 4 + 60), bytes.len());
            for off in 0..structural {
                for v in &values {
                    let candidates: Vec<u8> = vec![*v];
                    for nv in candidates {
                        if nv == bytes[off] {
                            continue;
                        }
                        out.evaluations += 1;
                        let mut m = bytes.clone();
                        m[off] = nv;
                        let r = dec(&m, vec![]);
                        match (&r, off) {
                            (Err(p), _) => out.violation("codec-panics", format!("decoder panicked with byte {off} set to {nv:#04x}: {p}"), rp("subst", json!([si, off, nv]))),
                            (Ok(Ok(_)), 0..=7) => out.violation("preamble-accepted", format!("a message whose preamble byte {off} is {nv:#04x} decoded successfully"), rp("subst", json!([si, off, nv]))),
                            _ => {}
                        }
                        out.class(format!("subst {}", if off < 8 { "preamble" } else { "frames" }));
                        // chunked delivery must give the same verdict as one-shot delivery
                        if (off + nv as usize) % 16 == 0 {
                            let rc = dec(&m, vec![off.max(1), (off + 3).min(m.len())]);
                            if rc != r {
                                out.violation("chunking-changes-result", format!("byte {off} := {nv:#04x}: one-shot {r:?} vs chunked {rc:?}"), rp("subst", json!([si, off, nv])));
                            }
                        }
                    }
                }
            }
            // every 1-cut and (sampled) 2-cut chunking of the intact message decodes identically
            for c1 in 1..bytes.len() {
                out.evaluations += 1;
                out.class("chunked");
                if dec(bytes, vec![c1]) != baseline {
                    out.violation("chunking-changes-result", format!("message delivered in two chunks cut at {c1} decodes differently"), rp("chunk", json!([si, c1])));
                }
                let step = tier.pick(2, 1);
                for c2 in ((c1 + 1)..bytes.len()).step_by(step) {
                    out.evaluations += 1;
                    if dec(bytes, vec![c1, c2]) != baseline {
                        out.violation("chunking-changes-result", format!("message delivered in three chunks cut at {c1},{c2} decodes differently"), rp("chunk", json!([si, c1, c2])));
                    }
                }
            }
            // bincode lengths inside the header frame that claim absurd sizes
            if *is_req {
                for claimed in [u64::MAX, 1u64 << 63, (1u64 << 63) - 1, 1 << 40, 1 << 32] {
                    for which in ["route", "map", "key", "value"] {
                        out.evaluations += 1;
                        out.class("absurd-bincode-length");
                        let mut h: Vec<u8> = vec![];
                        match which {
                            "route" => h.extend_from_slice(&claimed.to_le_bytes()),
                            _ => {
                                h.extend_from_slice(&2u64.to_le_bytes());
                                h.extend_from_slice(b"/r");
                                if which == "map" {
                                    h.extend_from_slice(&claimed.to_le_bytes());
                                } else {
                                    h.extend_from_slice(&1u64.to_le_bytes());
                                    if which == "key" {
                                        h.extend_from_slice(&claimed.to_le_bytes());
                                    } else {
                                        h.extend_from_slice(&1u64.to_le_bytes());
                                        h.push(b'k');
                                        h.extend_from_slice(&claimed.to_le_bytes());
                                    }
                                }
                            }
                        }
                        h.extend_from_slice(b"tail");
                        let m = ref_frames(1, &h, b"");
                        match dec(&m, vec![]) {
                            Err(p) => out.violation("codec-panics", format!("decoder panicked on a {which} length of {claimed}: {p}"), rp("bincode-len", json!([si, which, claimed]))),
                            Ok(Ok(_)) => out.violation("prefix-accepted", format!("a header whose {which} claims {claimed} bytes decoded successfully"), rp("bincode-len", json!([si, which, claimed]))),
                            Ok(Err(_)) => {}
                        }
                    }
                }
            }
            // hostile length prefixes with little data behind them
            for (which, at) in [("header", 8usize), ("body", bytes.len())] {
                for len in [0u32, 1, 0x7fff_ffff, 0x8000_0000, 0xffff_ffff, 8 * 1024 * 1024, 8 * 1024 * 1024 + 1] {
                    out.evaluations += 1;
                    out.class("length-prefix");
                    let mut m = bytes[..at.min(bytes.len())].to_vec();
                    if which == "body" {
                        // cut just before the body's length prefix
                        let hl = u32::from_be_bytes(bytes[8..12].try_into().unwrap()) as usize;
                        m = bytes[..12 + hl].to_vec();
                    }
                    m.extend_from_slice(&len.to_be_bytes());
                    m.extend_from_slice(b"short");
                    match dec(&m, vec![]) {
                        Err(p) => out.violation("codec-panics", format!("decoder panicked on a {which} length prefix of {len}: {p}"), rp("len", json!([si, which, len]))),
                        Ok(Ok(_)) if len > 5 => out.violation("prefix-accepted", format!("{which} length prefix {len} with 5 bytes of data decoded successfully"), rp("len", json!([si, which, len]))),
                        _ => {}
                    }
                }
            }
        }
        k => panic!("unknown kind {k}"),
    }
}

impl Check for C07 {
    fn meta(&self, _tier: Tier) -> CheckMeta {
        CheckMeta {
            property: "C07",
            level: "exploration",
            rule: "bounded-exhaustive inputs to the real codecs: every route over {'/', 'a', 'é', NUL, ' '} up to length 2 (quick) / 3 (thorough) plus a 1 KiB route x 42 header maps (0-3 entries incl. empty key/value, names differing only in case, u64::MAX timeout, 300-byte value) x bodies {0,1,255,256,65536}; all 8 status codes x maps x bodies; header frames (through the route, through one header value) and bodies of every size within -20..+4 bytes of every power of two 2^7..2^17 (quick) / 2^20 (thorough), compared byte for byte with the documented layout and round-tripped whole and cut at the boundary; all 65536 versions x 4 reserved bytes; all 65536 status codes; every strict prefix, single-byte substitution (5 values quick / all 255 thorough) over preamble, length prefixes and header, hostile length prefixes, every 1-cut and 2-cut chunking with Pending in between; distinct = distinct (message shape / mutation class)".into(),
            assumptions: vec!["header maps with more than one entry are compared after parsing (map order is unspecified); single-entry and empty maps are compared byte for byte with the reference encoder".into()],
            exhaustive: true,
        }
    }

    fn units(&self, _tier: Tier) -> Vec<Value> {
        let mut u = vec![json!({"kind":"versions","on_death":"decoder-aborts-process"}), json!({"kind":"status","on_death":"decoder-aborts-process"})];
        for part in 0..12 {
            u.push(json!({"kind":"roundtrip","part":part,"parts":12,"on_death":"decoder-aborts-process"}));
        }
        for s in 0..5 {
            u.push(json!({"kind":"mutate","sample":s,"on_death":"decoder-aborts-process"}));
        }
        for part in 0..8 {
            u.push(json!({"kind":"sizes","part":part,"parts":8,"on_death":"decoder-aborts-process"}));
        }
        u.push(json!({"kind":"configs","on_death":"decoder-aborts-process"}));
        u
    }

    fn run_unit(&self, tier: Tier, unit: &Value, out: &mut UnitResult) {
        run(unit, tier, out);
    }

    fn replay(&self, replay: &Value) -> String {
        let unit = replay["unit"].clone();
        let mut out = UnitResult::default();
        run(&unit, Tier::Thorough, &mut out);
        format!("re-ran unit {unit} (thorough): {} evaluations, {} violating\nwanted case: {} {}\n{:#?}", out.evaluations, out.violations.len(), replay["case"], replay["detail"], out.violations.iter().map(|v| (&v.key, &v.message)).collect::<Vec<_>>())
    }

    fn finish(&self, _tier: Tier, total: &mut UnitResult) -> Map<String, Value> {
        for need in ["version accepted=true", "version accepted=false", "status accepted=true", "status accepted=false", "strict-prefix", "chunked"] {
            if !total.classes.contains_key(need) {
                total.machinery_errors.push(format!("vacuous: class `{need}` never exercised"));
            }
        }
        Map::new()
    }
}
