//! C03 — dialing with an expected identity only ever reaches that identity.

use crate::adversary::{Adversary, Identity};
use crate::report::{CheckMeta, UnitResult};
use crate::simrun::{explore_sim, sim_exec, Judged};
use crate::world::*;
use crate::{Check, Tier};
use anemo::types::PeerEvent;
use anemo::PeerId;
use futures::FutureExt;
use serde_json::{json, Map, Value};
use std::net::SocketAddr;
use std::sync::Arc;

pub struct C03;

const V: u8 = 41;
const X: u8 = 42;
const Y: u8 = 43;
const Z: u8 = 44;

#[derive(Clone, Debug, Default)]
pub struct Obs {
    pub log: Vec<String>,
    pub violations: Vec<(String, String)>,
    pub class: String,
}

#[derive(Clone, Copy, Debug, PartialEq)]
enum Holder {
    X,
    Y,
    /// replays X's certificate, signs with its own key
    Impostor,
    /// presents [its own certificate, X's certificate], signs with its own key
    ImpostorChain,
    Nobody,
}

fn holder(s: &str) -> Holder {
    match s {
        "x" => Holder::X,
        "y" => Holder::Y,
        "impostor" => Holder::Impostor,
        "impostor_chain" => Holder::ImpostorChain,
        _ => Holder::Nobody,
    }
}

/// Background dials carry an expectation too: a High-affinity known peer X is dialed at every
/// one of its addresses expecting X, whoever answers there.
async fn scenario_background(sim: Arc<Sim>, unit: Value) -> Obs {
    let mut o = Obs::default();
    macro_rules! viol {
        ($k:expr, $($arg:tt)*) => { o.violations.push(($k.to_string(), format!($($arg)*))) };
    }
    anemo::verif::set_jitter_override(Some(std::time::Duration::ZERO));
    let mut vc = anemo::Config::default();
    vc.connect_timeout_ms = Some(800);
    vc.connectivity_check_interval_ms = Some(300);
    vc.connection_backoff_ms = Some(100);
    vc.max_connection_backoff_ms = Some(300);
    let v = sim.start(&NodeSpec::new(V).config(vc)).unwrap();
    let x = sim.start(&NodeSpec::new(X)).unwrap();
    let y = sim.start(&NodeSpec::new(Y)).unwrap();
    let (xid, yid) = (x.peer_id(), y.peer_id());
    let impostor = Adversary::new(&sim, Some(&Identity::replayed(X, NET_NAME, Z)));
    let ep = impostor.endpoint.clone();
    tokio::spawn(async move {
        while let Some(inc) = ep.accept().await {
            tokio::spawn(async move {
                if let Ok(conn) = inc.await {
                    let _ = Adversary::send_ack(&conn).await;
                    tokio::time::sleep(ms(5_000)).await;
                }
            });
        }
    });
    let hole = std::net::UdpSocket::bind("127.0.0.1:0").unwrap();
    let addrs: Vec<SocketAddr> = unit["addresses"].as_array().unwrap().iter().map(|a| match a.as_str().unwrap() {
        "x" => x.local_addr(),
        "y" => y.local_addr(),
        "impostor" => impostor.addr,
        _ => hole.local_addr().unwrap(),
    }).collect();
    let (mut ev, _) = v.subscribe().unwrap();
    sim.fabric.set_fate_window(0, unit["fate_budget"].as_u64().unwrap_or(0) as usize);
    v.known_peers().insert(known_peer(xid, anemo::types::PeerAffinity::High, addrs.clone()));
    tokio::time::sleep(ms(6_000)).await;
    sim.fabric.set_fate_budget(0);
    let evs = drain_events(&mut ev);
    let ctx = format!("[known peer X (High) with addresses held by {}]", unit["addresses"]);
    for e in &evs {
        let p = match e {
            PeerEvent::NewPeer(p) | PeerEvent::LostPeer(p, _) => p,
        };
        if *p != xid {
            viol!("pin-bypassed", "{ctx} the caller only ever dialed expecting X but announced {}", event_str(&sim, e));
        }
    }
    for p in v.peers() {
        if p != xid {
            viol!("pin-bypassed", "{ctx} the caller only ever dialed expecting X but lists {}", sim.label(&p));
        }
    }
    if !y.peers().is_empty() {
        viol!("spurious-peer-at-listener", "{ctx} Y was only ever dialed expecting X but lists the caller");
    }
    let has_x = unit["addresses"].as_array().unwrap().iter().any(|a| a == "x");
    let deviations = sim.chooser.lock().unwrap().choices().iter().filter(|c| **c != 0).count();
    if has_x && deviations == 0 && !v.peers().contains(&xid) {
        viol!("honest-dial-fails", "{ctx} X answers at one of its addresses but was not connected within 6 s");
    }
    if !has_x && v.peers().contains(&xid) {
        viol!("wrong-identity-returned", "{ctx} the caller lists X although X answers at none of the addresses");
    }
    o.class = format!("background {} x_connected={}", unit["addresses"], v.peers().contains(&xid));
    o.log.push(format!("events {:?}", evs.iter().map(|e| event_str(&sim, e)).collect::<Vec<_>>()));
    o
}

async fn scenario(sim: Arc<Sim>, unit: Value) -> Obs {
    if unit["kind"] == "background" {
        return scenario_background(sim, unit).await;
    }
    let mut o = Obs::default();
    macro_rules! viol {
        ($k:expr, $($arg:tt)*) => { o.violations.push(($k.to_string(), format!($($arg)*))) };
    }
    let mut vc = anemo::Config::default();
    vc.connect_timeout_ms = Some(3_000);
    // optionally the caller runs with a connection limit that its history already fills:
    // explicit dials are not subject to it
    vc.max_concurrent_connections = unit["limit"].as_u64().map(|l| l as usize);
    let v = sim.start(&NodeSpec::new(V).config(vc)).unwrap();
    let x = sim.start(&NodeSpec::new(X)).unwrap();
    let y = sim.start(&NodeSpec::new(Y)).unwrap();
    let (xid, yid) = (x.peer_id(), y.peer_id());
    let impostor = Adversary::new(&sim, Some(&Identity::replayed(X, NET_NAME, Z)));
    let chain_id = Identity { chain: vec![crate::adversary::anemo_cert(Z, NET_NAME), crate::adversary::anemo_cert(X, NET_NAME)], signer: Some(crate::adversary::signing_key(&crate::adversary::ed25519_pkcs8(Z))) };
    let impostor_chain = Adversary::new(&sim, Some(&chain_id));
    let zid = peer_id_of_key(Z);
    sim.labels.lock().unwrap().insert(zid, "Z(impostor)".into());
    for ep in [impostor.endpoint.clone(), impostor_chain.endpoint.clone()] {
        tokio::spawn(async move {
            while let Some(inc) = ep.accept().await {
                tokio::spawn(async move {
                    if let Ok(conn) = inc.await {
                        let _ = Adversary::send_ack(&conn).await;
                        tokio::time::sleep(ms(5_000)).await;
                    }
                });
            }
        });
    }
    let hole = std::net::UdpSocket::bind("127.0.0.1:0").unwrap();
    let addr_of = |h: Holder| -> SocketAddr {
        match h {
            Holder::X => x.local_addr(),
            Holder::Y => y.local_addr(),
            Holder::Impostor => impostor.addr,
            Holder::ImpostorChain => impostor_chain.addr,
            Holder::Nobody => hole.local_addr().unwrap(),
        }
    };
    let key_holder = |h: Holder| -> Option<PeerId> {
        match h {
            Holder::X => Some(xid),
            Holder::Y => Some(yid),
            // its own certificate comes first and it holds that key: it is, provably, Z
            Holder::ImpostorChain => Some(zid),
            _ => None,
        }
    };
    // optional history: an honest peer is already connected to the caller, in either direction
    let mut pre_connected: Vec<PeerId> = vec![];
    match unit["pre"].as_str() {
        Some("x_inbound") => {
            if let Err(e) = x.connect(v.local_addr()).await {
                viol!("setup", "X could not dial the caller: {e}");
            }
            pre_connected.push(xid);
        }
        Some("y_inbound") => {
            if let Err(e) = y.connect(v.local_addr()).await {
                viol!("setup", "Y could not dial the caller: {e}");
            }
            pre_connected.push(yid);
        }
        Some("x_outbound") => {
            if let Err(e) = v.connect(x.local_addr()).await {
                viol!("setup", "the caller could not dial X: {e}");
            }
            pre_connected.push(xid);
        }
        _ => {}
    }
    if !pre_connected.is_empty() {
        tokio::time::sleep(ms(50)).await;
    }
    let (mut ev, _) = v.subscribe().unwrap();
    let (mut ex, _) = x.subscribe().unwrap();
    let (mut ey, _) = y.subscribe().unwrap();
    // dials: [holder, pinned, offset_ms]
    // dials: [holder of the address, expected identity ("x" | "y" | null), start offset in ms]
    let dials: Vec<(Holder, Option<PeerId>, u64)> = unit["dials"].as_array().unwrap().iter().map(|d| (holder(d[0].as_str().unwrap()), match d[1].as_str() { Some("x") => Some(xid), Some("y") => Some(yid), _ => None }, d[2].as_u64().unwrap())).collect();
    sim.fabric.set_fate_window(0, unit["fate_budget"].as_u64().unwrap_or(0) as usize);
    let mut handles = vec![];
    // the address may be handed over as a SocketAddr, as a string, or as a (host, port) pair
    let form = unit["addr_form"].as_str().unwrap_or("socket").to_string();
    for (i, (h, expect, off)) in dials.iter().cloned().enumerate() {
        let (v2, addr, sim2) = (v.clone(), addr_of(h), sim.clone());
        let form = form.clone();
        handles.push(tokio::spawn(async move {
            tokio::time::sleep(ms(off)).await;
            // a subscription taken before the call, to check "connected at some instant before the call returns"
            let (mut sub, snap) = v2.subscribe().unwrap();
            let address: anemo::types::Address = match form.as_str() {
                "string" => addr.to_string().into(),
                "host_port" => (addr.ip().to_string(), addr.port()).into(),
                _ => addr.into(),
            };
            let r = match expect {
                Some(e) => v2.connect_with_peer_id(address, e).await,
                None => v2.connect(address).await,
            };
            let listed_now = v2.peers();
            let queued: Vec<PeerEvent> = drain_events(&mut sub);
            (i, r.map_err(|e| e.to_string()), snap, listed_now, queued, sim2.now_us())
        }));
    }
    let mut results = vec![];
    for h in handles {
        results.push(h.await.unwrap());
    }
    sim.fabric.set_fate_budget(0);
    for (i, r, snap, listed_now, queued, t) in &results {
        let (h, expect, _) = dials[*i];
        let ctx = format!("[{}{}dial #{i}: address held by {h:?}, {}]", match unit["pre"].as_str() { Some(p) => format!("history {p}; "), None => String::new() }, match unit["addr_form"].as_str() { Some(f) => format!("address given as {f}; "), None => String::new() }, match expect { Some(e) => format!("expecting {}", sim.label(&e)), None => "no expectation".to_string() });
        o.log.push(format!("{ctx} -> {:?} at {t}us", r.as_ref().map(|p| sim.label(p))));
        match r {
            Ok(p) => {
                match key_holder(h) {
                    Some(k) if k == *p => {}
                    other => viol!("wrong-identity-returned", "{ctx} returned {} but the party holding that address {}", sim.label(p), match other { Some(k) => format!("is {}", sim.label(&k)), None => "holds no identity's key it presented".to_string() }),
                }
                if let Some(e) = expect {
                    if *p != e {
                        viol!("pin-bypassed", "{ctx} succeeded with {}", sim.label(p));
                    }
                    if key_holder(h) != Some(e) {
                        viol!("pin-bypassed", "{ctx} succeeded although the party at that address does not hold that identity's key");
                    }
                }
                let was_connected = snap.contains(p) || listed_now.contains(p) || queued.iter().any(|e| matches!(e, PeerEvent::NewPeer(q) if q == p));
                if !was_connected {
                    viol!("returned-before-connected", "{ctx} returned Ok but the peer was neither listed at the start of the call nor announced by the time it returned (listing {:?}, queued events {:?})", listed_now.len(), queued.len());
                }
            }
            Err(_) => {
                // honest, reachable holder of the expected / any identity: must succeed
                let should = match expect {
                    Some(e) => key_holder(h) == Some(e) && h != Holder::ImpostorChain,
                    None => matches!(h, Holder::X | Holder::Y),
                };
                let deviations = sim.chooser.lock().unwrap().choices().iter().filter(|c| **c != 0).count();
                if should && deviations == 0 {
                    viol!("honest-dial-fails", "{ctx} failed although the right party answers at that address: {r:?}");
                }
            }
        }
    }
    // horizon: nothing may surface later either
    tokio::time::sleep(ms(1_500)).await;
    let evs_v = drain_events(&mut ev);
    let evs_x = drain_events(&mut ex);
    let evs_y = drain_events(&mut ey);
    // which identities may V legitimately be connected to
    let mut allowed: Vec<PeerId> = pre_connected.clone();
    for (h, expect, _) in &dials {
        match (key_holder(*h), expect) {
            (Some(k), None) => allowed.push(k),
            (Some(k), Some(e)) if k == *e => allowed.push(k),
            _ => {}
        }
    }
    for e in &evs_v {
        let p = match e {
            PeerEvent::NewPeer(p) | PeerEvent::LostPeer(p, _) => p,
        };
        if !allowed.contains(p) {
            viol!("spurious-peer-at-caller", "the caller announced {} although no dial could legitimately reach it (dials {:?})", event_str(&sim, e), unit["dials"]);
        }
    }
    for p in v.peers() {
        if !allowed.contains(&p) {
            viol!("spurious-peer-at-caller", "the caller lists {} (dials {:?})", sim.label(&p), unit["dials"]);
        }
    }
    let mut seen = std::collections::BTreeSet::new();
    for p in v.peers() {
        if !seen.insert(p) {
            viol!("duplicate-listing", "the caller lists a peer twice");
        }
    }
    for (who, net, evs, id) in [("X", &x, &evs_x, xid), ("Y", &y, &evs_y, yid)] {
        let legit = allowed.contains(&id);
        if !legit && (!evs.is_empty() || !net.peers().is_empty()) {
            viol!("spurious-peer-at-listener", "{who} was dialed only with an expectation it cannot meet (or not at all) but it announced/lists the caller: events {:?}, listing {}", evs.iter().map(|e| event_str(&sim, e)).collect::<Vec<_>>(), net.peers().len());
        }
    }
    // no handler ran on anybody's behalf
    let reqs = sim.svc.requests.lock().unwrap();
    if !reqs.is_empty() {
        viol!("spurious-request", "handlers were invoked: {}", reqs.len());
    }
    o.class = results.iter().map(|r| format!("{:?}:{}", dials[r.0].0, if r.1.is_ok() { "ok" } else { "err" })).collect::<Vec<_>>().join(",");
    o
}

fn judge(o: &Obs) -> Judged {
    Judged { class: o.class.clone(), violations: o.violations.clone(), sample: Some(json!(o.log)) }
}

impl Check for C03 {
    fn meta(&self, _tier: Tier) -> CheckMeta {
        CheckMeta {
            property: "C03",
            level: "fault_enumeration",
            rule: "caller V, honest X and Y, an impostor replaying X's certificate without X's key, an impostor presenting [own certificate, X's certificate], and a dead address; every single dial (address holder x expected identity in {X, Y, none}; the address given as a SocketAddr, as a string and as a (host, port) pair), also with X or Y already connected to the caller (inbound or outbound) beforehand, with and without a connection limit of 1 at the caller that this history already fills, and every pair of dials (all 15 x 15 combinations x start offsets {0, 3, 9, 100} ms, the last one sequential), plus background dials to a High-affinity known peer X whose address list is partly held by Y, an impostor or nobody; each explored over datagram fates within the deviation bound across both handshakes; distinct = distinct (holder, outcome) tuples".into(),
            assumptions: vec!["three key pairs; the impostor completes whatever handshake the caller lets it complete and sends the acknowledgement".into()],
            exhaustive: true,
        }
    }

    fn units(&self, tier: Tier) -> Vec<Value> {
        let mut u = vec![];
        let holders = ["x", "y", "impostor", "impostor_chain", "nobody"];
        let expects: [Option<&str>; 3] = [Some("x"), Some("y"), None];
        let mut kinds: Vec<(&str, Option<&str>)> = vec![];
        for h in holders {
            for e in expects {
                kinds.push((h, e));
            }
        }
        for (h, e) in &kinds {
            u.push(json!({"dials":[[h, e, 0]],"bound":tier.pick(2, 3),"fate_budget":24}));
        }
        for form in ["string", "host_port"] {
            for (h, e) in &kinds {
                u.push(json!({"addr_form":form,"dials":[[h, e, 0]],"bound":tier.pick(1, 2),"fate_budget":24}));
            }
        }
        for pre in ["x_inbound", "y_inbound", "x_outbound"] {
            for (h, e) in &kinds {
                u.push(json!({"pre":pre,"dials":[[h, e, 0]],"bound":tier.pick(1, 2),"fate_budget":24}));
                u.push(json!({"pre":pre,"limit":1,"dials":[[h, e, 0]],"bound":tier.pick(0, 1),"fate_budget":24}));
            }
        }
        // background dials to a High-affinity known peer X whose address list is partly held by others
        for addresses in [json!(["nobody", "y"]), json!(["y", "x"]), json!(["nobody", "impostor", "x"]), json!(["y"]), json!(["impostor", "y", "nobody"]), json!(["nobody", "x"])] {
            u.push(json!({"kind":"background","addresses":addresses,"bound":tier.pick(0, 1),"fate_budget":30}));
        }
        for (h1, e1) in &kinds {
            for (h2, e2) in &kinds {
                for off in [0u64, 3, 9, 100] {
                    let interesting = *h1 != "nobody" && *h2 != "nobody" && h1 == h2;
                    let bound = if interesting && off == 3 { tier.pick(1, 2) } else { tier.pick(0, 1) };
                    if tier == Tier::Quick && off == 9 && h1 != h2 {
                        continue;
                    }
                    u.push(json!({"dials":[[h1, e1, 0],[h2, e2, off]],"bound":bound,"fate_budget":30}));
                }
            }
        }
        u
    }

    fn run_unit(&self, _tier: Tier, unit: &Value, out: &mut UnitResult) {
        let u = unit.clone();
        let bound = unit["bound"].as_u64().unwrap() as usize;
        explore_sim(out, crate::seed(), unit, 2_000, bound, 50_000, true, move |sim| scenario(sim, u.clone()).boxed(), |o: &Obs, _p, _c| judge(o));
    }

    fn replay(&self, replay: &Value) -> String {
        let unit = replay["unit"].clone();
        let choices: Vec<u32> = replay["choices"].as_array().map(|a| a.iter().map(|x| x.as_u64().unwrap() as u32).collect()).unwrap_or_default();
        let seed = replay["seed"].as_u64().unwrap_or(1);
        let u = unit.clone();
        let o = sim_exec(seed, &choices, 2_000, move |sim| scenario(sim, u).boxed());
        match o.run {
            Some(r) => format!("unit {unit}\nchoices {choices:?}\n{}\nviolations {:#?}\npanics {:?}", r.obs.log.join("\n"), r.obs.violations, o.panics),
            None => format!("execution hung={} panics={:?}", o.hung, o.panics),
        }
    }

    fn finish(&self, _tier: Tier, total: &mut UnitResult) -> Map<String, Value> {
        if !total.classes.keys().any(|k| k.starts_with("background") && k.ends_with("x_connected=true")) {
            total.machinery_errors.push("vacuous: no background dial ever reached X".into());
        }
        for need in ["X:ok", "Y:ok", "Y:err", "Impostor:err", "ImpostorChain:ok", "ImpostorChain:err", "Nobody:err"] {
            if !total.classes.keys().any(|k| k.contains(need)) {
                total.machinery_errors.push(format!("vacuous: outcome `{need}` never observed"));
            }
        }
        Map::new()
    }
}
