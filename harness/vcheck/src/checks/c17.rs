//! C17 — generated typed clients reach the matching typed handlers.
//! static: for every service definition of a grid, the real generators are run and the route
//!         literals of client and server and SERVICE_NAME are extracted from the token streams;
//! dynamic: a separately compiled binary (`vgen`) whose build script runs anemo-build on a
//!         definition set makes typed calls through generated client -> Router -> generated server.

use crate::report::{CheckMeta, UnitResult};
use crate::{Check, Tier};
use anemo::{Request, Response, Router};
use anemo_build::manual::{Method, Service};
use bytes::Bytes;
use futures::FutureExt;
use serde_json::{json, Map, Value};
use std::convert::Infallible;
use std::task::{Context, Poll};

pub struct C17;

#[derive(Clone)]
struct Leaf;
impl tower::Service<Request<Bytes>> for Leaf {
    type Response = Response<Bytes>;
    type Error = Infallible;
    type Future = std::future::Ready<Result<Response<Bytes>, Infallible>>;
    fn poll_ready(&mut self, _: &mut Context<'_>) -> Poll<Result<(), Infallible>> {
        Poll::Ready(Ok(()))
    }
    fn call(&mut self, _req: Request<Bytes>) -> Self::Future {
        std::future::ready(Ok(Response::new(Bytes::from_static(b"leaf"))))
    }
}

/// string literals that directly follow `marker` in a token-stream rendering
fn literals_after(text: &str, marker: &str) -> Vec<String> {
    let mut out = vec![];
    let mut from = 0;
    while let Some(i) = text[from..].find(marker) {
        let start = from + i + marker.len();
        let rest = text[start..].trim_start();
        if let Some(stripped) = rest.strip_prefix('"') {
            if let Some(end) = stripped.find('"') {
                out.push(stripped[..end].to_string());
            }
        }
        from = start;
    }
    out
}

/// string literals that are directly followed by `=>` (match arms)
fn arm_literals(text: &str) -> Vec<String> {
    let mut out = vec![];
    let bytes = text.as_bytes();
    let mut i = 0;
    while i < bytes.len() {
        if bytes[i] == b'"' {
            if let Some(end) = text[i + 1..].find('"') {
                let lit = &text[i + 1..i + 1 + end];
                let after = text[i + 2 + end..].trim_start();
                if after.starts_with("=>") {
                    out.push(lit.to_string());
                }
                i += end + 2;
                continue;
            }
        }
        i += 1;
    }
    out
}

fn definitions() -> Vec<(String, String, Vec<(String, String)>, bool, bool)> {
    let routes = ["M", "SayHello", "m_1"];
    let mut lists: Vec<Vec<usize>> = vec![vec![]];
    for a in 0..3 {
        lists.push(vec![a]);
        for b in 0..3 {
            if b != a {
                lists.push(vec![a, b]);
                for c in 0..3 {
                    if c != a && c != b {
                        lists.push(vec![a, b, c]);
                    }
                }
            }
        }
    }
    let mut out = vec![];
    for package in ["", "p", "a.b"] {
        for name in ["S", "Greeter"] {
            for l in &lists {
                for json in [false, true] {
                    for raw in [false, true] {
                        let methods = l.iter().map(|i| (format!("method_{}", routes[*i].to_lowercase()), routes[*i].to_string())).collect();
                        out.push((package.to_string(), name.to_string(), methods, json, raw));
                    }
                }
            }
        }
    }
    out
}

fn static_part(out: &mut UnitResult) {
    for (package, name, methods, json_codec, raw) in definitions() {
        crate::pool::crumb(|| format!("generators on package {package:?} service {name:?}"));
        out.evaluations += 1;
        let ctx = format!("[package {package:?} service {name:?} methods {:?} codec {} raw {raw}]", methods.iter().map(|m| &m.1).collect::<Vec<_>>(), if json_codec { "json" } else { "bincode" });
        let rp = json!({"unit": {"kind": "static"}, "definition": ctx});
        let r = std::panic::catch_unwind(|| {
            let mut b = Service::builder().name(&name).package(&package);
            for (mname, route) in &methods {
                b = b.method(
                    Method::builder()
                        .name(mname)
                        .route_name(route)
                        .request_type("crate::Req")
                        .response_type("crate::Resp")
                        .codec_path(if json_codec { "anemo::rpc::codec::JsonCodec" } else { "anemo::rpc::codec::BincodeCodec" })
                        .server_handler_return_raw_bytes(raw)
                        .build(),
                );
            }
            let svc = b.build();
            (anemo_build::client::generate(&svc).to_string(), anemo_build::server::generate(&svc).to_string())
        });
        let (client, server) = match r {
            Ok(x) => x,
            Err(p) => {
                out.violation("generator-panics", format!("{ctx} the generators panicked: {}", crate::exec::panic_message(&p)), rp);
                continue;
            }
        };
        let client_routes = literals_after(&client, "route_mut () =");
        let server_routes = arm_literals(&server);
        let service_names = literals_after(&server, "SERVICE_NAME : & 'static str =");
        out.class(format!("static methods={} pkg={}", methods.len(), !package.is_empty()));
        if service_names.len() != 1 {
            out.violation("service-name-missing", format!("{ctx} found {} SERVICE_NAME constants in the generated server", service_names.len()), rp);
            continue;
        }
        let sname = &service_names[0];
        let want_name = if package.is_empty() { name.clone() } else { format!("{package}.{name}") };
        if *sname != want_name {
            out.violation("service-name-wrong", format!("{ctx} SERVICE_NAME is {sname:?}, expected {want_name:?}"), rp.clone());
        }
        if client_routes.len() != methods.len() || server_routes.len() != methods.len() {
            out.violation("route-count", format!("{ctx} {} methods but {} client routes {:?} and {} server arms {:?}", methods.len(), client_routes.len(), client_routes, server_routes.len(), server_routes), rp);
            continue;
        }
        // the router mounts the service under /<SERVICE_NAME>/*rest
        let mut router = Router::new().route(&format!("/{sname}/*rest"), Leaf);
        for (i, (_mname, route)) in methods.iter().enumerate() {
            let (c, s) = (&client_routes[i], &server_routes[i]);
            if c != s {
                out.violation("client-server-route-mismatch", format!("{ctx} method {route}: the client calls {c:?} but the server matches {s:?}"), rp.clone());
            }
            if !c.starts_with(&format!("/{sname}/")) || !c.ends_with(&format!("/{route}")) {
                out.violation("route-outside-service-prefix", format!("{ctx} method {route}: client route {c:?} is not /{sname}/{route}"), rp.clone());
            }
            let resp = tower::Service::call(&mut router, Request::new(Bytes::new()).with_route(c.clone())).now_or_never();
            match resp {
                Some(Ok(r)) if r.body().as_ref() == b"leaf" => {}
                _ => out.violation("route-outside-service-prefix", format!("{ctx} method {route}: the router prefix /{sname}/*rest does not match the client's route {c:?}"), rp.clone()),
            }
        }
        let mut sorted = client_routes.clone();
        sorted.sort();
        sorted.dedup();
        if sorted.len() != client_routes.len() {
            out.violation("routes-not-distinct", format!("{ctx} client routes {:?}", client_routes), rp);
        }
        if out.samples.is_empty() && methods.len() == 3 {
            out.sample(json!({"definition": ctx, "client_routes": client_routes, "server_arms": server_routes, "SERVICE_NAME": sname}));
        }
    }
}

fn dynamic_part(out: &mut UnitResult) {
    let exe = std::env::current_exe().unwrap().parent().unwrap().join("vgen");
    let log = crate::report::verif_root().join("build").join("cargo-vgen.log");
    let failed = crate::report::verif_root().join("build").join("vgen.failed");
    if failed.exists() || !exe.exists() {
        let tail: String = std::fs::read_to_string(&log).unwrap_or_default().lines().filter(|l| l.starts_with("error")).take(5).collect::<Vec<_>>().join(" | ");
        out.evaluations += 1;
        out.violation("generated-code-does-not-compile", format!("the code anemo-build generates for the C17 definition set (harness/vgen/build.rs) does not compile against anemo: {tail}"), json!({"unit": {"kind": "dynamic"}, "log": log}));
        return;
    }
    match std::process::Command::new(&exe).output() {
        Ok(o) if o.status.success() => {
            let v: Value = match serde_json::from_slice(&o.stdout) {
                Ok(v) => v,
                Err(e) => {
                    out.machinery_errors.push(format!("vgen output unparsable: {e}"));
                    return;
                }
            };
            out.evaluations += v["evaluations"].as_u64().unwrap_or(0);
            for (k, n) in v["classes"].as_object().cloned().unwrap_or_default() {
                *out.classes.entry(k).or_default() += n.as_u64().unwrap_or(0);
            }
            for viol in v["violations"].as_array().cloned().unwrap_or_default() {
                out.violation(viol["key"].as_str().unwrap_or("dynamic"), viol["message"].as_str().unwrap_or(""), viol["replay"].clone());
            }
        }
        Ok(o) => {
            // the generated code panicked / aborted while serving typed calls
            out.violation("typed-call-panics", format!("vgen exited with {:?}: {}", o.status, String::from_utf8_lossy(&o.stderr).lines().take(5).collect::<Vec<_>>().join(" | ")), json!({"unit": {"kind": "dynamic"}}));
        }
        Err(e) => out.machinery_errors.push(format!("cannot run vgen: {e}")),
    }
}

impl Check for C17 {
    fn meta(&self, _tier: Tier) -> CheckMeta {
        CheckMeta {
            property: "C17",
            level: "exploration",
            rule: "static: every definition in {package '', 'p', 'a.b'} x {S, Greeter} x every ordered method list of length 0-3 over route names {M, SayHello, m_1} x {bincode, json} x {raw bytes off, on} (384 programs): run the real client and server generators, extract the client's route literal per method, the server's match-arm literal per method and SERVICE_NAME, require equality, distinctness and that the real Router's /<SERVICE_NAME>/*rest matches; dynamic: 6 generated services (empty/simple/dotted package, both codecs, raw bytes, zero methods, prefix-related route names) x every method x 3 messages x 29 handler outcomes (Ok, 7 status codes x message x headers) x 9 payload faults through generated client -> Router (with a decoy service) -> generated server; distinct = distinct (definition shape / call outcome class)".into(),
            assumptions: vec!["route literals are located textually in the generated token streams (`route_mut () = \"..\"`, `\"..\" =>`, `SERVICE_NAME : & 'static str = \"..\"`)".into()],
            exhaustive: true,
        }
    }
    fn units(&self, _tier: Tier) -> Vec<Value> {
        vec![json!({"kind":"static"}), json!({"kind":"dynamic"})]
    }
    fn run_unit(&self, _tier: Tier, unit: &Value, out: &mut UnitResult) {
        if unit["kind"] == "static" {
            static_part(out)
        } else {
            dynamic_part(out)
        }
    }
    fn replay(&self, replay: &Value) -> String {
        let mut out = UnitResult::default();
        if replay["unit"]["kind"] == "static" {
            static_part(&mut out);
        } else {
            dynamic_part(&mut out);
        }
        format!("re-ran the {} part; wanted {}\n{:#?}", replay["unit"]["kind"], replay.get("definition").or(replay.get("case")).unwrap_or(&Value::Null), out.violations.iter().map(|v| (&v.key, &v.message)).collect::<Vec<_>>())
    }
    fn finish(&self, _tier: Tier, total: &mut UnitResult) -> Map<String, Value> {
        for need in ["dynamic:ok", "dynamic:handler-error", "dynamic:fault-error", "static methods=3 pkg=false", "static methods=0 pkg=true"] {
            if !total.classes.contains_key(need) {
                total.machinery_errors.push(format!("vacuous: class `{need}` missing"));
            }
        }
        Map::new()
    }
}
