//! In-memory datagram fabric under quinn (`AsyncUdpSocket`) with owned fate, latency, partitions
//! and socket errors, plus a quinn `Runtime` whose spawned drivers the harness can kill.

use crate::explore::SharedChooser;
use std::collections::{HashMap, HashSet, VecDeque};
use std::future::Future;
use std::io;
use std::net::SocketAddr;
use std::pin::Pin;
use std::sync::{Arc, Mutex, Weak};
use std::task::{Context, Poll, Waker};
use std::time::Duration;
use tokio::time::{Instant, Sleep};

#[derive(Clone, Copy, Debug, PartialEq, Eq)]
pub enum Fate {
    Deliver,
    Drop,
    Dup,
    /// extra delay in microseconds (lands after later traffic: reordering)
    Delay(u64),
}

#[derive(Clone, Debug)]
pub struct DgLog {
    pub t_us: u64,
    pub src: usize,
    /// usize::MAX when nobody is bound at the destination
    pub dst: usize,
    pub dst_addr: SocketAddr,
    pub len: usize,
    pub fate: Fate,
    pub delivered: bool,
    /// (dcid, scid) when the datagram starts with a QUIC long-header Initial packet
    pub initial: Option<(Vec<u8>, Vec<u8>)>,
}

pub struct Fabric {
    inner: Mutex<FabricInner>,
    chooser: SharedChooser,
}

struct FabricInner {
    socks: Vec<(SocketAddr, Weak<SockState>)>,
    log: Vec<DgLog>,
    start: Option<Instant>,
    default_latency_us: u64,
    latency_us: HashMap<(usize, usize), u64>,
    down: HashSet<(usize, usize)>,
    fail_recv: HashSet<usize>,
    /// datagram fates are choice points while > 0 (counts down)
    fate_budget: usize,
    /// eligible datagrams to let pass (default fate) before the budget starts counting
    fate_skip: usize,
    /// restrict fate choice points to datagrams between these two nodes (either direction)
    fate_pair: Option<(usize, usize)>,
    reorder_delay_us: u64,
    keep_log: bool,
    trace: bool,
    /// (src node, datagrams still to go, notifier): fires when src has sent that many more datagrams
    triggers: Vec<(usize, usize, Option<tokio::sync::oneshot::Sender<()>>)>,
    seen_scids: HashSet<Vec<u8>>,
    drivers: HashMap<usize, Vec<tokio::task::AbortHandle>>,
}

struct Item {
    due: Instant,
    seq: u64,
    src: SocketAddr,
    data: Vec<u8>,
}

pub struct SockState {
    addr: SocketAddr,
    node: usize,
    q: Mutex<VecDeque<Item>>,
    waker: Mutex<Option<Waker>>,
    timer: Mutex<Option<Pin<Box<Sleep>>>>,
    fabric: Weak<Fabric>,
    seq: Mutex<u64>,
    _real: std::net::UdpSocket,
}

impl std::fmt::Debug for SockState {
    fn fmt(&self, f: &mut std::fmt::Formatter<'_>) -> std::fmt::Result {
        write!(f, "SimSock(node {} @ {})", self.node, self.addr)
    }
}

#[derive(Debug)]
struct Poller;
impl quinn::UdpPoller for Poller {
    fn poll_writable(self: Pin<&mut Self>, _cx: &mut Context) -> Poll<io::Result<()>> {
        Poll::Ready(Ok(()))
    }
}

fn parse_initial(d: &[u8]) -> Option<(Vec<u8>, Vec<u8>)> {
    // long header, type Initial (00), QUIC v1; the fixed bit may be greased (RFC 9287)
    if d.len() < 7 || d[0] & 0xB0 != 0x80 || d[1..5] != [0, 0, 0, 1] {
        return None;
    }
    let dl = d[5] as usize;
    if d.len() < 6 + dl + 1 {
        return None;
    }
    let dcid = d[6..6 + dl].to_vec();
    let sl = d[6 + dl] as usize;
    if d.len() < 7 + dl + sl {
        return None;
    }
    let scid = d[7 + dl..7 + dl + sl].to_vec();
    Some((dcid, scid))
}

impl quinn::AsyncUdpSocket for SockState {
    fn create_io_poller(self: Arc<Self>) -> Pin<Box<dyn quinn::UdpPoller>> {
        Box::pin(Poller)
    }

    fn try_send(&self, t: &quinn::udp::Transmit) -> io::Result<()> {
        let Some(f) = self.fabric.upgrade() else {
            return Ok(());
        };
        assert!(t.segment_size.is_none(), "GSO is not offered by the fabric");
        let now = Instant::now();
        let mut g = f.inner.lock().unwrap();
        let start = *g.start.get_or_insert(now);
        let t_us = (now - start).as_micros() as u64;
        let dst = g
            .socks
            .iter()
            .position(|(a, w)| *a == t.destination && w.strong_count() > 0);
        let dst_node = dst.unwrap_or(usize::MAX);
        let link_down = g.down.contains(&(self.node, dst_node));
        let in_pair = match g.fate_pair {
            None => true,
            Some((a, b)) => {
                (self.node == a && dst_node == b) || (self.node == b && dst_node == a)
            }
        };
        let mut fate = Fate::Deliver;
        let eligible = g.fate_budget > 0 && dst.is_some() && !link_down && in_pair;
        if eligible && g.fate_skip > 0 {
            g.fate_skip -= 1;
        } else if eligible {
            g.fate_budget -= 1;
            let reorder = g.reorder_delay_us;
            let c = f.chooser.lock().unwrap().choose("dg", 4);
            fate = match c {
                0 => Fate::Deliver,
                1 => Fate::Drop,
                2 => Fate::Dup,
                _ => Fate::Delay(reorder),
            };
        }
        let initial = parse_initial(t.contents);
        if let Some((_, scid)) = &initial {
            g.seen_scids.insert(scid.clone());
        }
        {
            let mut ch = f.chooser.lock().unwrap();
            let mut rec = [0u8; 8 + 8 + 8 + 8];
            rec[..8].copy_from_slice(&t_us.to_le_bytes());
            rec[8..16].copy_from_slice(&(self.node as u64).to_le_bytes());
            rec[16..24].copy_from_slice(&(dst_node as u64).to_le_bytes());
            rec[24..32].copy_from_slice(&(t.contents.len() as u64).to_le_bytes());
            ch.observe(&rec);
        }
        let delivered = dst.is_some() && !link_down && fate != Fate::Drop;
        for t in g.triggers.iter_mut() {
            if t.0 == self.node && t.1 > 0 {
                t.1 -= 1;
                if t.1 == 0 {
                    if let Some(tx) = t.2.take() {
                        let _ = tx.send(());
                    }
                }
            }
        }
        if g.trace {
            eprintln!("dg t={}us {}->{} len={} first={:02x} {:?}", t_us, self.node, dst_node as i64, t.contents.len(), t.contents[0], fate);
        }
        if g.keep_log {
            g.log.push(DgLog {
                t_us,
                src: self.node,
                dst: dst_node,
                dst_addr: t.destination,
                len: t.contents.len(),
                fate,
                delivered,
                initial,
            });
        }
        if !delivered {
            return Ok(());
        }
        let lat = *g
            .latency_us
            .get(&(self.node, dst_node))
            .unwrap_or(&g.default_latency_us);
        let dst_sock = g.socks[dst.unwrap()].1.upgrade();
        drop(g);
        let Some(dst_sock) = dst_sock else {
            return Ok(());
        };
        let lat = Duration::from_micros(lat);
        let mut dues = vec![];
        match fate {
            Fate::Drop => {}
            Fate::Deliver => dues.push(now + lat),
            Fate::Dup => {
                dues.push(now + lat);
                dues.push(now + lat + Duration::from_micros(10));
            }
            Fate::Delay(us) => dues.push(now + lat + Duration::from_micros(us)),
        }
        let seq = {
            let mut s = self.seq.lock().unwrap();
            *s += 1;
            // order ties by (sender node, per-sender sequence) so that it is a total order
            ((self.node as u64) << 48) | *s
        };
        for due in dues {
            let mut q = dst_sock.q.lock().unwrap();
            let item = Item {
                due,
                seq,
                src: self.addr,
                data: t.contents.to_vec(),
            };
            let pos = q
                .iter()
                .position(|i| (i.due, i.seq) > (due, seq))
                .unwrap_or(q.len());
            q.insert(pos, item);
        }
        if let Some(w) = dst_sock.waker.lock().unwrap().take() {
            w.wake();
        }
        Ok(())
    }

    fn poll_recv(
        &self,
        cx: &mut Context,
        bufs: &mut [io::IoSliceMut<'_>],
        meta: &mut [quinn::udp::RecvMeta],
    ) -> Poll<io::Result<usize>> {
        if let Some(f) = self.fabric.upgrade() {
            if f.inner.lock().unwrap().fail_recv.contains(&self.node) {
                return Poll::Ready(Err(io::Error::new(
                    io::ErrorKind::Other,
                    "injected fatal socket error",
                )));
            }
        }
        loop {
            let now = Instant::now();
            let mut q = self.q.lock().unwrap();
            let mut n = 0;
            while n < bufs.len() && q.front().map(|i| i.due <= now).unwrap_or(false) {
                let it = q.pop_front().unwrap();
                let l = it.data.len().min(bufs[n].len());
                bufs[n][..l].copy_from_slice(&it.data[..l]);
                let mut m = quinn::udp::RecvMeta::default();
                m.addr = it.src;
                m.len = l;
                m.stride = l;
                m.dst_ip = Some(self.addr.ip());
                meta[n] = m;
                n += 1;
            }
            if n > 0 {
                return Poll::Ready(Ok(n));
            }
            *self.waker.lock().unwrap() = Some(cx.waker().clone());
            let Some(due) = q.front().map(|i| i.due) else {
                return Poll::Pending;
            };
            drop(q);
            let mut t = self.timer.lock().unwrap();
            match t.as_mut() {
                Some(s) => s.as_mut().reset(due),
                None => *t = Some(Box::pin(tokio::time::sleep_until(due))),
            }
            match t.as_mut().unwrap().as_mut().poll(cx) {
                Poll::Ready(()) => continue,
                Poll::Pending => return Poll::Pending,
            }
        }
    }

    fn local_addr(&self) -> io::Result<SocketAddr> {
        Ok(self.addr)
    }

    fn may_fragment(&self) -> bool {
        false
    }
}

/// quinn runtime that remembers what it spawned, per node.
#[derive(Debug)]
struct SimRuntime {
    node: usize,
    fabric: Weak<Fabric>,
    inner: quinn::TokioRuntime,
}

impl quinn::Runtime for SimRuntime {
    fn new_timer(&self, i: std::time::Instant) -> Pin<Box<dyn quinn::AsyncTimer>> {
        self.inner.new_timer(i)
    }
    fn spawn(&self, future: Pin<Box<dyn Future<Output = ()> + Send>>) {
        let h = tokio::spawn(future);
        if let Some(f) = self.fabric.upgrade() {
            f.inner
                .lock()
                .unwrap()
                .drivers
                .entry(self.node)
                .or_default()
                .push(h.abort_handle());
        }
    }
    fn wrap_udp_socket(&self, t: std::net::UdpSocket) -> io::Result<Arc<dyn quinn::AsyncUdpSocket>> {
        self.inner.wrap_udp_socket(t)
    }
    fn now(&self) -> std::time::Instant {
        self.inner.now()
    }
}

impl std::fmt::Debug for Fabric {
    fn fmt(&self, f: &mut std::fmt::Formatter<'_>) -> std::fmt::Result {
        write!(f, "Fabric")
    }
}

struct Factory(Arc<Fabric>);

impl anemo::verif::SocketFactory for Factory {
    fn make(
        &self,
        real: std::net::UdpSocket,
    ) -> io::Result<(Arc<dyn quinn::AsyncUdpSocket>, Arc<dyn quinn::Runtime>)> {
        let (s, r) = self.0.attach(real)?;
        Ok((s, r))
    }
}

impl Fabric {
    pub fn new(chooser: SharedChooser, default_latency_us: u64) -> Arc<Self> {
        Arc::new(Fabric {
            inner: Mutex::new(FabricInner {
                socks: vec![],
                log: vec![],
                start: None,
                default_latency_us,
                latency_us: HashMap::new(),
                down: HashSet::new(),
                fail_recv: HashSet::new(),
                fate_budget: 0,
                fate_skip: 0,
                fate_pair: None,
                reorder_delay_us: 3 * default_latency_us + 1000,
                keep_log: true,
                triggers: vec![],
                trace: std::env::var("VERIF_TRACE_DG").is_ok(),
                seen_scids: HashSet::new(),
                drivers: HashMap::new(),
            }),
            chooser,
        })
    }

    /// Make anemo endpoints created on this thread use the fabric.
    pub fn install(self: &Arc<Self>) {
        anemo::verif::set_socket_factory(Some(Arc::new(Factory(self.clone()))));
    }

    pub fn uninstall() {
        anemo::verif::set_socket_factory(None);
    }

    /// Attach a socket (used for anemo endpoints via the factory and for raw adversary endpoints).
    pub fn attach(
        self: &Arc<Self>,
        real: std::net::UdpSocket,
    ) -> io::Result<(Arc<SockState>, Arc<dyn quinn::Runtime>)> {
        let addr = real.local_addr()?;
        let mut g = self.inner.lock().unwrap();
        let node = g.socks.len();
        let s = Arc::new(SockState {
            addr,
            node,
            q: Mutex::new(VecDeque::new()),
            waker: Mutex::new(None),
            timer: Mutex::new(None),
            fabric: Arc::downgrade(self),
            seq: Mutex::new(0),
            _real: real,
        });
        g.socks.push((addr, Arc::downgrade(&s)));
        let rt = Arc::new(SimRuntime {
            node,
            fabric: Arc::downgrade(self),
            inner: quinn::TokioRuntime,
        });
        Ok((s, rt))
    }

    pub fn node_of(&self, addr: SocketAddr) -> Option<usize> {
        self.inner
            .lock()
            .unwrap()
            .socks
            .iter()
            .rposition(|(a, _)| *a == addr)
    }
    pub fn nodes(&self) -> usize {
        self.inner.lock().unwrap().socks.len()
    }
    pub fn set_latency_us(&self, src: usize, dst: usize, us: u64) {
        self.inner.lock().unwrap().latency_us.insert((src, dst), us);
    }
    pub fn set_link(&self, src: usize, dst: usize, up: bool) {
        let mut g = self.inner.lock().unwrap();
        if up {
            g.down.remove(&(src, dst));
        } else {
            g.down.insert((src, dst));
        }
    }
    pub fn set_link_both(&self, a: usize, b: usize, up: bool) {
        self.set_link(a, b, up);
        self.set_link(b, a, up);
    }
    /// The next `n` eligible datagrams are fate choice points.
    pub fn set_fate_budget(&self, n: usize) {
        self.inner.lock().unwrap().fate_budget = n;
    }
    /// Let `skip` eligible datagrams pass, then make the next `n` fate choice points.
    pub fn set_fate_window(&self, skip: usize, n: usize) {
        let mut g = self.inner.lock().unwrap();
        g.fate_skip = skip;
        g.fate_budget = n;
    }
    pub fn fate_budget(&self) -> usize {
        self.inner.lock().unwrap().fate_budget
    }
    pub fn set_fate_pair(&self, pair: Option<(usize, usize)>) {
        self.inner.lock().unwrap().fate_pair = pair;
    }
    pub fn set_reorder_delay_us(&self, us: u64) {
        self.inner.lock().unwrap().reorder_delay_us = us;
    }
    pub fn set_keep_log(&self, keep: bool) {
        self.inner.lock().unwrap().keep_log = keep;
    }
    /// Resolves right after `node` has sent `after` more datagrams (`after` >= 1).
    pub fn arm_trigger(&self, node: usize, after: usize) -> tokio::sync::oneshot::Receiver<()> {
        let (tx, rx) = tokio::sync::oneshot::channel();
        self.inner.lock().unwrap().triggers.push((node, after.max(1), Some(tx)));
        rx
    }
    pub fn sent_by(&self, node: usize) -> usize {
        self.inner.lock().unwrap().log.iter().filter(|d| d.src == node).count()
    }
    pub fn fail_recv(&self, node: usize) {
        self.inner.lock().unwrap().fail_recv.insert(node);
        // poke the socket so that its driver polls recv
        let s = self.inner.lock().unwrap().socks[node].1.upgrade();
        if let Some(s) = s {
            if let Some(w) = s.waker.lock().unwrap().take() {
                w.wake();
            }
        }
    }
    pub fn log(&self) -> Vec<DgLog> {
        self.inner.lock().unwrap().log.clone()
    }
    pub fn log_len(&self) -> usize {
        self.inner.lock().unwrap().log.len()
    }
    pub fn datagrams_sent(&self) -> usize {
        self.log_len()
    }
    /// Abort the quinn endpoint driver task of `node` (first task its runtime spawned).
    pub fn kill_endpoint_driver(&self, node: usize) -> bool {
        let g = self.inner.lock().unwrap();
        match g.drivers.get(&node).and_then(|v| v.first()) {
            Some(h) => {
                h.abort();
                true
            }
            None => false,
        }
    }
    /// Abort every quinn connection driver task of `node`.
    pub fn kill_connection_drivers(&self, node: usize) -> usize {
        let g = self.inner.lock().unwrap();
        let mut n = 0;
        if let Some(v) = g.drivers.get(&node) {
            for h in v.iter().skip(1) {
                if !h.is_finished() {
                    h.abort();
                    n += 1;
                }
            }
        }
        n
    }
    /// Connection attempts: first Initial packets (DCID never seen as anybody's SCID before),
    /// as (t_us, src node, dst node or MAX, dst addr index unknown).
    pub fn attempts(&self) -> Vec<(u64, usize, SocketAddr, Vec<u8>)> {
        let g = self.inner.lock().unwrap();
        let mut scids: HashSet<Vec<u8>> = HashSet::new();
        let mut seen: HashSet<(usize, Vec<u8>)> = HashSet::new();
        let mut out = vec![];
        for d in &g.log {
            if let Some((dcid, scid)) = &d.initial {
                if !scids.contains(dcid) && seen.insert((d.src, dcid.clone())) {
                    out.push((d.t_us, d.src, d.dst_addr, dcid.clone()));
                }
                scids.insert(scid.clone());
            }
        }
        out
    }
}
