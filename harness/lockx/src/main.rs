//! C04, thread interleavings: loom explores every schedule (within a preemption bound) of 2-3
//! threads operating on the REAL `ActivePeers` registry. The registry's lock is shadowed by a loom
//! `RwLock` through the cfg-guarded lock hook, and `send_event` contains a loom scheduling point,
//! so loom may preempt exactly where a misplaced unlock or event would open a window.
//!
//! Oracle per execution: (1) every subscription taken at any time (snapshot + later events)
//! reproduces the final listing and alternates per peer; (2) the recorded call/return history is
//! linearizable with respect to the sequential reference model (brute force over all orders).

use anemo::types::{DisconnectReason, PeerEvent};
use anemo::verif::{LockHook, VActivePeers, VConnection, VEndpoint};
use anemo::PeerId;
use serde_json::json;
use std::any::Any;
use std::collections::{BTreeMap, BTreeSet};
use std::sync::atomic::{AtomicU64, Ordering};
use std::sync::{Arc, Mutex};

struct Hook {
    lock: Arc<loom::sync::RwLock<()>>,
    pt: Arc<loom::sync::atomic::AtomicUsize>,
}

impl LockHook for Hook {
    fn acquire_read(&self) -> Box<dyn Any> {
        let l = self.lock.clone();
        let g: loom::sync::RwLockReadGuard<'static, ()> = unsafe { std::mem::transmute(l.read().unwrap()) };
        Box::new((g, l)) // the guard is dropped before the Arc that keeps the lock alive
    }
    fn acquire_write(&self) -> Box<dyn Any> {
        let l = self.lock.clone();
        let g: loom::sync::RwLockWriteGuard<'static, ()> = unsafe { std::mem::transmute(l.write().unwrap()) };
        Box::new((g, l))
    }
    fn point(&self, _tag: &'static str) {
        self.pt.fetch_add(1, loom::sync::atomic::Ordering::SeqCst);
    }
}

#[derive(Clone, Copy, Debug, PartialEq, Eq)]
enum Op {
    /// add pooled connection #i
    Add(usize),
    Remove(usize), // peer index
    /// remove_with_stable_id(peer of connection #i, id of connection #i)
    RemoveId(usize),
    Subscribe,
    Peers,
}

#[derive(Clone, Debug, PartialEq)]
enum Ret {
    Added(bool),
    Unit,
    Snapshot(BTreeSet<usize>),
    Listing(BTreeSet<usize>),
}

struct Pool {
    own: PeerId,
    peers: [PeerId; 2],
    /// (peer index, inbound?, connection)
    conns: Vec<(usize, bool, VConnection)>,
    _keep: Vec<VConnection>,
    _eps: Vec<VEndpoint>,
}

fn build_pool(rt: &tokio::runtime::Runtime) -> Pool {
    rt.block_on(async {
        let cfg = anemo::Config::default();
        let mk = |k: u8| {
            let s = std::net::UdpSocket::bind("127.0.0.1:0").unwrap();
            VEndpoint::new([k; 32], "lockx", None, &cfg, s).unwrap()
        };
        let (l, p, q) = (mk(2), mk(1), mk(3));
        let mut conns = vec![];
        let mut keep = vec![];
        for (pi, r) in [(0usize, &p), (1, &q)] {
            for inbound in [true, false, true, false] {
                if inbound {
                    let (a, b) = tokio::join!(r.connect(l.local_addr(), None), l.accept());
                    keep.push(a.unwrap());
                    conns.push((pi, true, b.unwrap().unwrap()));
                } else {
                    let (a, b) = tokio::join!(l.connect(r.local_addr(), None), r.accept());
                    keep.push(b.unwrap().unwrap());
                    conns.push((pi, false, a.unwrap()));
                }
            }
        }
        Pool { own: l.peer_id(), peers: [p.peer_id(), q.peer_id()], conns, _keep: keep, _eps: vec![l, p, q] }
    })
}

/// sequential reference model: peer index -> connection index
#[derive(Clone, Default)]
struct Model {
    reg: BTreeMap<usize, usize>,
}

impl Model {
    fn apply(&mut self, pool: &Pool, op: Op) -> Ret {
        match op {
            Op::Add(i) => {
                let (p, inbound, _) = &pool.conns[i];
                let ok = match self.reg.get(p) {
                    None => true,
                    Some(old) => {
                        let old_in = pool.conns[*old].1;
                        if old_in == *inbound {
                            true
                        } else {
                            let new_dialer = if *inbound { pool.peers[*p] } else { pool.own };
                            let old_dialer = if old_in { pool.peers[*p] } else { pool.own };
                            new_dialer > old_dialer
                        }
                    }
                };
                if ok {
                    self.reg.insert(*p, i);
                }
                Ret::Added(ok)
            }
            Op::Remove(p) => {
                self.reg.remove(&p);
                Ret::Unit
            }
            Op::RemoveId(i) => {
                let p = pool.conns[i].0;
                if self.reg.get(&p) == Some(&i) {
                    self.reg.remove(&p);
                }
                Ret::Unit
            }
            Op::Subscribe => Ret::Snapshot(self.reg.keys().copied().collect()),
            Op::Peers => Ret::Listing(self.reg.keys().copied().collect()),
        }
    }
}

/// Is there an interleaving of the threads' programs under which the model returns what was seen?
fn linearizable(pool: &Pool, progs: &[Vec<Op>], rets: &[Vec<Ret>], final_listing: &BTreeSet<usize>) -> bool {
    fn rec(pool: &Pool, progs: &[Vec<Op>], rets: &[Vec<Ret>], pos: &mut Vec<usize>, m: &Model, fin: &BTreeSet<usize>) -> bool {
        if pos.iter().enumerate().all(|(t, p)| *p == progs[t].len()) {
            return m.reg.keys().copied().collect::<BTreeSet<_>>() == *fin;
        }
        for t in 0..progs.len() {
            if pos[t] < progs[t].len() {
                let mut m2 = m.clone();
                let r = m2.apply(pool, progs[t][pos[t]]);
                if r == rets[t][pos[t]] {
                    pos[t] += 1;
                    if rec(pool, progs, rets, pos, &m2, fin) {
                        pos[t] -= 1;
                        return true;
                    }
                    pos[t] -= 1;
                }
            }
        }
        false
    }
    rec(pool, progs, rets, &mut vec![0; progs.len()], &Model::default(), final_listing)
}

fn idx(pool: &Pool, p: &PeerId) -> usize {
    pool.peers.iter().position(|x| x == p).unwrap()
}

fn run_model(pool: Arc<Pool>, progs: Vec<Vec<Op>>, bound: usize, execs: &AtomicU64, bad: Arc<Mutex<Vec<String>>>) {
    let mut b = loom::model::Builder::new();
    b.preemption_bound = Some(bound);
    b.max_branches = 100_000;
    let progs2 = progs.clone();
    let execs_ptr: &'static AtomicU64 = unsafe { &*(execs as *const AtomicU64) };
    b.check(move || {
        execs_ptr.fetch_add(1, Ordering::Relaxed);
        let hook = Arc::new(Hook { lock: Arc::new(loom::sync::RwLock::new(())), pt: Arc::new(loom::sync::atomic::AtomicUsize::new(0)) });
        anemo::verif::set_lock_hook(Some(hook));
        let ap = VActivePeers::new(64);
        let (mut main_rx, _) = ap.subscribe();
        type Sub = (tokio::sync::broadcast::Receiver<PeerEvent>, BTreeSet<usize>);
        let results: Arc<Mutex<Vec<(usize, Vec<Ret>, Vec<Sub>)>>> = Arc::new(Mutex::new(vec![]));
        let mut hs = vec![];
        for (t, prog) in progs2.iter().cloned().enumerate() {
            let (ap, pool, results) = (ap.clone(), pool.clone(), results.clone());
            hs.push(loom::thread::spawn(move || {
                let mut rets = vec![];
                let mut subs: Vec<Sub> = vec![];
                for op in prog {
                    rets.push(match op {
                        Op::Add(i) => Ret::Added(ap.add(&pool.own, &pool.conns[i].2)),
                        Op::Remove(p) => {
                            ap.remove(&pool.peers[p], DisconnectReason::Requested);
                            Ret::Unit
                        }
                        Op::RemoveId(i) => {
                            let (p, _, c) = &pool.conns[i];
                            ap.remove_with_stable_id(pool.peers[*p], c.stable_id(), DisconnectReason::ConnectionClosed);
                            Ret::Unit
                        }
                        Op::Subscribe => {
                            let (rx, snap) = ap.subscribe();
                            let s: BTreeSet<usize> = snap.iter().map(|p| idx(&pool, p)).collect();
                            subs.push((rx, s.clone()));
                            Ret::Snapshot(s)
                        }
                        Op::Peers => Ret::Listing(ap.peers().iter().map(|p| idx(&pool, p)).collect()),
                    });
                }
                results.lock().unwrap().push((t, rets, subs));
            }));
        }
        for h in hs {
            h.join().unwrap();
        }
        anemo::verif::set_lock_hook(None);
        let final_listing: BTreeSet<usize> = ap.peers().iter().map(|p| idx(&pool, p)).collect();
        let mut report = |m: String| {
            let mut b = bad.lock().unwrap();
            if b.len() < 20 {
                b.push(format!("threads {progs2:?}: {m}"));
            }
        };
        // (1) change-log property for every subscriber
        let replay = |rx: &mut tokio::sync::broadcast::Receiver<PeerEvent>, start: BTreeSet<usize>| -> Result<BTreeSet<usize>, String> {
            let mut s = start;
            while let Ok(e) = rx.try_recv() {
                match e {
                    PeerEvent::NewPeer(p) => {
                        if !s.insert(idx(&pool, &p)) {
                            return Err("NewPeer for a peer the subscriber already has".into());
                        }
                    }
                    PeerEvent::LostPeer(p, _) => {
                        if !s.remove(&idx(&pool, &p)) {
                            return Err("LostPeer for a peer the subscriber does not have".into());
                        }
                    }
                }
            }
            Ok(s)
        };
        match replay(&mut main_rx, BTreeSet::new()) {
            Ok(s) if s == final_listing => {}
            Ok(s) => report(format!("events from the start give {s:?} but the final listing is {final_listing:?}")),
            Err(e) => report(format!("event stream: {e}")),
        }
        let mut res = results.lock().unwrap();
        res.sort_by_key(|r| r.0);
        for (t, _, subs) in res.iter_mut() {
            for (rx, snap) in subs.iter_mut() {
                match replay(rx, snap.clone()) {
                    Ok(s) if s == final_listing => {}
                    Ok(s) => report(format!("thread {t}: snapshot {snap:?} + events gives {s:?} but the final listing is {final_listing:?}")),
                    Err(e) => report(format!("thread {t}: snapshot {snap:?} then {e}")),
                }
            }
        }
        // (2) linearizability
        let rets: Vec<Vec<Ret>> = res.iter().map(|r| r.1.clone()).collect();
        if !linearizable(&pool, &progs2, &rets, &final_listing) {
            report(format!("history is not linearizable: returns {rets:?}, final listing {final_listing:?}"));
        }
    });
}

// ------------------------------------------------------------------------------------------
// C16: routers built on different threads. The only state they share is the route-id counter
// (an atomic, hook H9 puts a scheduling point before each of its operations).
// ------------------------------------------------------------------------------------------

fn tagged(tag: String) -> impl tower::Service<anemo::Request<bytes::Bytes>, Response = anemo::Response<bytes::Bytes>, Error = std::convert::Infallible, Future = impl Send + 'static> + Clone + Send + 'static {
    tower::service_fn(move |_req: anemo::Request<bytes::Bytes>| {
        let tag = tag.clone();
        async move { Ok::<_, std::convert::Infallible>(anemo::Response::new(bytes::Bytes::new()).with_header("svc", tag)) }
    })
}

/// Build a router of `n` routes (the last `merged` of them through `merge`) and report every path
/// that is not answered by its own service.
fn build_and_probe(name: &str, n: usize, merged: usize) -> Vec<String> {
    use futures::FutureExt;
    use tower::Service;
    let mut router = anemo::Router::new();
    for i in 0..(n - merged) {
        router = router.route(&format!("/{name}/{i}"), tagged(format!("{name}{i}")));
    }
    if merged > 0 {
        let mut other = anemo::Router::new();
        for i in (n - merged)..n {
            other = other.route(&format!("/{name}/{i}"), tagged(format!("{name}{i}")));
        }
        router = router.merge(other);
    }
    let mut wrong = vec![];
    for i in 0..n {
        let path = format!("/{name}/{i}");
        let resp = router.call(anemo::Request::new(bytes::Bytes::new()).with_route(path.clone())).now_or_never().expect("routing is synchronous").unwrap();
        let got = resp.headers().get("svc").cloned();
        if got.as_deref() != Some(&format!("{name}{i}")) {
            wrong.push(format!("{path} was answered by {got:?} with status {:?}", resp.status()));
        }
    }
    wrong
}

fn run_routes(thorough: bool) {
    let execs = Arc::new(AtomicU64::new(0));
    let bad: Arc<Mutex<Vec<String>>> = Arc::new(Mutex::new(vec![]));
    let mut models = 0u64;
    // (routes of thread A, of which merged), (routes of thread B, of which merged)
    let mut shapes = vec![((3usize, 0usize), (1usize, 0usize)), ((3, 1), (1, 0)), ((2, 0), (2, 0)), ((3, 0), (2, 1))];
    if thorough {
        shapes.extend([((4, 0), (1, 0)), ((4, 2), (2, 0)), ((3, 0), (3, 0))]);
    }
    for (a, b) in shapes {
        models += 1;
        let mut builder = loom::model::Builder::new();
        builder.preemption_bound = Some(if thorough { 4 } else { 3 });
        builder.max_branches = 100_000;
        let (execs2, bad2) = (execs.clone(), bad.clone());
        builder.check(move || {
            execs2.fetch_add(1, Ordering::Relaxed);
            let hook = Arc::new(Hook { lock: Arc::new(loom::sync::RwLock::new(())), pt: Arc::new(loom::sync::atomic::AtomicUsize::new(0)) });
            anemo::verif::set_lock_hook(Some(hook));
            let ha = loom::thread::spawn(move || build_and_probe("a", a.0, a.1));
            let hb = loom::thread::spawn(move || build_and_probe("b", b.0, b.1));
            let mut wrong = ha.join().unwrap();
            wrong.extend(hb.join().unwrap());
            anemo::verif::set_lock_hook(None);
            if !wrong.is_empty() {
                let mut bd = bad2.lock().unwrap();
                let m = format!("two threads building routers of {a:?} and {b:?} routes (n, merged) at the same time: {}", wrong.join("; "));
                if bd.len() < 5 && !bd.contains(&m) {
                    bd.push(m);
                }
            }
        });
    }
    let bad = bad.lock().unwrap().clone();
    println!("{}", json!({"models": models, "schedules": execs.load(Ordering::Relaxed), "preemption_bound": if thorough { 4 } else { 3 }, "violations": bad}));
}

fn main() {
    let thorough = std::env::args().nth(1).as_deref() == Some("thorough");
    if std::env::args().nth(2).as_deref() == Some("routes") {
        run_routes(thorough);
        return;
    }
    let rt = tokio::runtime::Builder::new_multi_thread().worker_threads(2).enable_all().build().unwrap();
    let pool = Arc::new(build_pool(&rt));
    // connection indices: peer P: 0 in, 1 out, 2 in, 3 out; peer Q: 4 in, 5 out, ...
    let menu: Vec<Vec<Op>> = vec![
        vec![Op::Add(0)],
        vec![Op::Add(1)],
        vec![Op::Add(2)],
        vec![Op::Add(4)],
        vec![Op::Remove(0)],
        vec![Op::RemoveId(0)],
        vec![Op::Subscribe],
        vec![Op::Peers],
        vec![Op::Add(0), Op::Remove(0)],
        vec![Op::Add(0), Op::Add(2)],
        vec![Op::Add(0), Op::RemoveId(0)],
        vec![Op::Subscribe, Op::Peers],
        vec![Op::Add(1), Op::Subscribe],
    ];
    let execs = AtomicU64::new(0);
    let bad = Arc::new(Mutex::new(vec![]));
    let mut models = 0u64;
    let bound = if thorough { 3 } else { 2 };
    if std::env::args().nth(2).as_deref() == Some("pair") {
        // C05: one side of a mutual dial. Thread A is the life of one connection with the peer
        // (registered, then its handler notices the close and unregisters it by stable id);
        // thread B registers the other connection of the pair (every direction combination,
        // 0/2 inbound, 1/3 outbound). Whatever the interleaving, the outcome must be one of
        // the sequential ones.
        // connections 0..4 are with peer P, 4..8 with peer Q (the two peers sit on either side of
        // the local identity in the order whenever the three keys allow it)
        for (first, second) in (0..4usize).flat_map(|a| (0..4usize).map(move |b| (a, b))).chain((4..8usize).flat_map(|a| (4..8usize).map(move |b| (a, b)))) {
            {
                if first == second {
                    continue;
                }
                models += 1;
                run_model(pool.clone(), vec![vec![Op::Add(first), Op::RemoveId(first)], vec![Op::Add(second)]], 3, &execs, bad.clone());
                if thorough {
                    models += 1;
                    run_model(pool.clone(), vec![vec![Op::Add(first), Op::RemoveId(first)], vec![Op::Add(second), Op::RemoveId(second)]], 3, &execs, bad.clone());
                    models += 1;
                    run_model(pool.clone(), vec![vec![Op::Add(first), Op::RemoveId(first)], vec![Op::Add(second)], vec![Op::Peers]], 2, &execs, bad.clone());
                }
            }
        }
        let bad = bad.lock().unwrap().clone();
        println!("{}", json!({"models": models, "schedules": execs.load(Ordering::Relaxed), "preemption_bound": 3, "violations": bad}));
        drop(pool);
        drop(rt);
        return;
    }
    let mutates = |p: &Vec<Op>| p.iter().any(|o| !matches!(o, Op::Subscribe | Op::Peers));
    // C09: only the models in which some thread subscribes while another changes the peer set
    // (a subscriber must not miss, nor see twice, a change that races its subscription)
    let only_subscribe = std::env::args().nth(2).as_deref() == Some("subscribe");
    let subscribes = |p: &Vec<Op>| p.iter().any(|o| matches!(o, Op::Subscribe));
    for a in &menu {
        for b in &menu {
            if !mutates(a) && !mutates(b) {
                continue;
            }
            if only_subscribe && !(subscribes(a) || subscribes(b)) {
                continue;
            }
            models += 1;
            run_model(pool.clone(), vec![a.clone(), b.clone()], bound, &execs, bad.clone());
        }
    }
    // three threads: two mutators and one observer
    let observers = [vec![Op::Subscribe], vec![Op::Peers], vec![Op::Subscribe, Op::Peers]];
    let mutators: Vec<&Vec<Op>> = menu.iter().filter(|p| mutates(p) && (thorough || p.len() == 1)).collect();
    for a in &mutators {
        for b in &mutators {
            for o in &observers {
                if !thorough && o.len() == 2 {
                    continue;
                }
                if only_subscribe && !subscribes(o) {
                    continue;
                }
                models += 1;
                run_model(pool.clone(), vec![(*a).clone(), (*b).clone(), o.clone()], bound.min(2), &execs, bad.clone());
            }
        }
    }
    let bad = bad.lock().unwrap().clone();
    println!("{}", json!({"models": models, "schedules": execs.load(Ordering::Relaxed), "preemption_bound": bound, "violations": bad}));
    // quinn handles are dropped with the runtime still alive
    drop(pool);
    drop(rt);
}
