//! C17 dynamic part: typed calls through the real generated clients, the real `Router` and the
//! real generated servers, for every (service, method, message, handler outcome, payload fault).
//! Prints one JSON object (a `UnitResult`-shaped summary) on stdout.

use anemo::rpc::Status;
use anemo::types::response::StatusCode;
use anemo::{Request, Response, Router};
use bytes::Bytes;
use futures::future::BoxFuture;
use futures::FutureExt;
use serde::{Deserialize, Serialize};
use serde_json::{json, Value};
use std::collections::BTreeMap;
use std::convert::Infallible;
use std::sync::{Arc, Mutex};
use std::task::{Context, Poll};
use tower::Service;

#[derive(Debug, Clone, PartialEq, Serialize, Deserialize)]
pub struct Msg {
    pub a: u32,
    pub s: String,
}

#[derive(Debug, Clone, PartialEq, Serialize, Deserialize)]
pub struct Reply {
    pub echo: String,
    pub n: u64,
}

pub mod d0 {
    include!(concat!(env!("OUT_DIR"), "/S.rs"));
}
pub mod d1 {
    include!(concat!(env!("OUT_DIR"), "/p.S.rs"));
}
pub mod d2 {
    include!(concat!(env!("OUT_DIR"), "/a.b.Greeter.rs"));
}
pub mod d3 {
    include!(concat!(env!("OUT_DIR"), "/Greeter.rs"));
}
pub mod d4 {
    include!(concat!(env!("OUT_DIR"), "/p.Greeter.rs"));
}
pub mod d5 {
    include!(concat!(env!("OUT_DIR"), "/a.b.S.rs"));
}

pub mod d7 {
    include!(concat!(env!("OUT_DIR"), "/GreeterAdmin.rs"));
}
pub mod d6 {
    include!(concat!(env!("OUT_DIR"), "/u.Unit.rs"));
}

/// A message without fields: its bincode encoding is empty.
#[derive(Debug, Clone, PartialEq, Serialize, Deserialize)]
pub struct Marker;

#[derive(Clone, Default)]
struct U {
    log: Arc<Mutex<Vec<&'static str>>>,
}

#[anemo::async_trait]
impl d6::unit_server::Unit for U {
    async fn ping(&self, _request: Request<()>) -> Result<Response<()>, Status> {
        self.log.lock().unwrap().push("ping");
        Ok(Response::new(()))
    }
    async fn ping_json(&self, _request: Request<()>) -> Result<Response<()>, Status> {
        self.log.lock().unwrap().push("ping_json");
        Ok(Response::new(()))
    }
    async fn mark(&self, _request: Request<Marker>) -> Result<Response<Marker>, Status> {
        self.log.lock().unwrap().push("mark");
        Ok(Response::new(Marker))
    }
}

/// Typed calls whose messages encode to nothing at all.
fn run_unit_messages(out: &mut Out) {
    for method in ["ping", "ping_json", "mark"] {
        let u = U::default();
        let router = Router::new().add_rpc_service(d6::unit_server::UnitServer::new(u.clone()));
        let mut client = d6::unit_client::UnitClient::new(router);
        let r: Result<Result<(), Status>, String> = std::panic::catch_unwind(std::panic::AssertUnwindSafe(|| match method {
            "ping" => client.ping(()).now_or_never().expect("completes").map(|_| ()),
            "ping_json" => client.ping_json(()).now_or_never().expect("completes").map(|_| ()),
            _ => client.mark(Marker).now_or_never().expect("completes").map(|r| assert_eq!(*r.body(), Marker)),
        }))
        .map_err(|p| p.downcast_ref::<String>().cloned().or_else(|| p.downcast_ref::<&str>().map(|s| s.to_string())).unwrap_or_default());
        out.evaluations += 1;
        let ctx = format!("[u.Unit::{method} with a message whose encoding is empty]");
        let log = u.log.lock().unwrap().clone();
        let mut v = |key: &str, m: String| out.violations.push(json!({"key": key, "message": format!("{ctx} {m}"), "replay": {"unit": {"kind": "dynamic"}, "case": ctx}}));
        match r {
            Err(p) => v("typed-call-panics", format!("the typed call panicked: {p}")),
            Ok(res) => {
                if log != vec![method] {
                    v("wrong-handler", format!("expected exactly one invocation of handler {method}, the handlers saw {log:?}"));
                }
                if let Err(s) = res {
                    v("typed-call-fails", format!("nothing was damaged but the call failed: {:?} {:?}", s.status(), s.headers()));
                }
            }
        }
        *out.classes.entry("dynamic:empty-message".into()).or_default() += 1;
    }
}

#[derive(Clone, Debug)]
enum Outcome {
    Ok,
    Err { code: u16, message: Option<String>, headers: Vec<(String, String)> },
}

#[derive(Clone)]
struct H {
    svc: &'static str,
    log: Arc<Mutex<Vec<(String, String, Msg)>>>,
    outcome: Arc<Mutex<Outcome>>,
    raw_garbage: Arc<Mutex<bool>>,
}

fn reply_for(svc: &str, method: &str, m: &Msg) -> Reply {
    Reply { echo: format!("{svc}.{method}:{}", m.s), n: m.a as u64 + 1 }
}

impl H {
    fn typed(&self, method: &str, req: Request<Msg>) -> Result<Response<Reply>, Status> {
        let m = req.into_body();
        self.log.lock().unwrap().push((self.svc.to_string(), method.to_string(), m.clone()));
        match self.outcome.lock().unwrap().clone() {
            Outcome::Ok => Ok(Response::new(reply_for(self.svc, method, &m)).with_header("h-set", "by-handler")),
            Outcome::Err { code, message, headers } => {
                let st = StatusCode::new(code).unwrap();
                let mut s = match message {
                    Some(m) => Status::new_with_message(st, m),
                    None => Status::new(st),
                };
                for (k, v) in headers {
                    s = s.with_header(k, v);
                }
                Err(s)
            }
        }
    }
    fn raw(&self, method: &str, json_codec: bool, req: Request<Msg>) -> Result<Response<Bytes>, Status> {
        let r = self.typed(method, req)?;
        let (parts, reply) = r.into_parts();
        let bytes = if *self.raw_garbage.lock().unwrap() {
            Bytes::from_static(b"\xff\xfe\xfd\xfc garbage")
        } else if json_codec {
            Bytes::from(serde_json::to_vec(&reply).unwrap())
        } else {
            Bytes::from(bincode::serialize(&reply).unwrap())
        };
        Ok(Response::from_parts(parts, bytes))
    }
}

macro_rules! three_methods {
    ($tr:path) => {
        #[anemo::async_trait]
        impl $tr for H {
            async fn m(&self, request: Request<Msg>) -> Result<Response<Reply>, Status> {
                self.typed("m", request)
            }
            async fn say_hello(&self, request: Request<Msg>) -> Result<Response<Reply>, Status> {
                self.typed("say_hello", request)
            }
            async fn m_1(&self, request: Request<Msg>) -> Result<Response<Bytes>, Status> {
                self.raw("m_1", false, request)
            }
        }
    };
}
three_methods!(d0::s_server::S);
three_methods!(d1::s_server::S);
three_methods!(d2::greeter_server::Greeter);

#[anemo::async_trait]
impl d3::greeter_server::Greeter for H {
    async fn m(&self, request: Request<Msg>) -> Result<Response<Bytes>, Status> {
        self.raw("m", true, request)
    }
}
#[anemo::async_trait]
impl d4::greeter_server::Greeter for H {}
#[anemo::async_trait]
impl d7::greeter_admin_server::GreeterAdmin for H {
    async fn m(&self, request: Request<Msg>) -> Result<Response<Reply>, Status> {
        self.typed("m", request)
    }
}
#[anemo::async_trait]
impl d5::s_server::S for H {
    async fn m(&self, request: Request<Msg>) -> Result<Response<Reply>, Status> {
        self.typed("m", request)
    }
    async fn mm(&self, request: Request<Msg>) -> Result<Response<Reply>, Status> {
        self.typed("mm", request)
    }
}

#[derive(Clone, Copy, Debug, PartialEq)]
enum Fault {
    None,
    ReqTruncate,
    ReqGarbage,
    RespTruncate,
    RespGarbage,
    RespEmpty,
    RespStatus(u16),
    HandlerRawGarbage,
    /// a complete, valid encoding followed by more bytes (JSON: not a message any more;
    /// bincode's legacy configuration ignores trailing bytes, so only JSON methods are judged)
    ReqTrailing,
    RespTrailing,
}

/// Sits between the generated client and the router; damages payloads on the way.
#[derive(Clone)]
struct Tamper<S> {
    inner: S,
    fault: Fault,
    routes: Arc<Mutex<Vec<String>>>,
}

impl<S> Service<Request<Bytes>> for Tamper<S>
where
    S: Service<Request<Bytes>, Response = Response<Bytes>, Error = Infallible>,
    S::Future: Send + 'static,
{
    type Response = Response<Bytes>;
    type Error = Infallible;
    type Future = BoxFuture<'static, Result<Response<Bytes>, Infallible>>;
    fn poll_ready(&mut self, cx: &mut Context<'_>) -> Poll<Result<(), Infallible>> {
        self.inner.poll_ready(cx)
    }
    fn call(&mut self, mut req: Request<Bytes>) -> Self::Future {
        self.routes.lock().unwrap().push(req.route().to_string());
        match self.fault {
            Fault::ReqTruncate => {
                let b = req.body().clone();
                *req.body_mut() = b.slice(..b.len().saturating_sub(1));
            }
            Fault::ReqGarbage => *req.body_mut() = Bytes::from_static(b"\xff\xff\xff\xff\xff\xff\xff\xff\xff"),
            Fault::ReqTrailing => {
                let mut b = req.body().to_vec();
                b.extend_from_slice(b"{\"a\":1}junk");
                *req.body_mut() = Bytes::from(b);
            }
            _ => {}
        }
        let fault = self.fault;
        let fut = self.inner.call(req);
        Box::pin(async move {
            let mut resp = fut.await?;
            match fault {
                Fault::RespTruncate => {
                    let b = resp.body().clone();
                    *resp.body_mut() = b.slice(..b.len().saturating_sub(1));
                }
                Fault::RespGarbage => *resp.body_mut() = Bytes::from_static(b"\xff\xff\xff\xff\xff\xff\xff\xff\xff"),
                Fault::RespEmpty => *resp.body_mut() = Bytes::new(),
                Fault::RespTrailing => {
                    let mut b = resp.body().to_vec();
                    b.extend_from_slice(b"]junk");
                    *resp.body_mut() = Bytes::from(b);
                }
                Fault::RespStatus(c) => *resp.status_mut() = StatusCode::new(c).unwrap(),
                _ => {}
            }
            Ok(resp)
        })
    }
}

/// which methods of the definition set use the JSON codec (see build.rs)
fn is_json(svc: &str, method: &str) -> bool {
    method == "say_hello" || method == "mm" || (svc == "Greeter" && method == "m")
}

struct Case {
    svc: &'static str,
    method: &'static str,
    raw: bool,
}

struct Out {
    evaluations: u64,
    classes: BTreeMap<String, u64>,
    violations: Vec<Value>,
}

type Typed = Result<Response<Reply>, Status>;

#[allow(clippy::too_many_arguments)]
fn judge(out: &mut Out, case: &Case, msg: &Msg, outcome: &Outcome, fault: Fault, h: &H, routes: &[String], result: Result<Typed, String>) {
    out.evaluations += 1;
    let ctx = format!("[{}::{} msg {:?} handler {:?} fault {:?}]", case.svc, case.method, msg, outcome, fault);
    let mut v = |key: &str, m: String| {
        if out.violations.len() < 30 {
            out.violations.push(json!({"key": key, "message": format!("{ctx} {m}"), "replay": {"unit": {"kind": "dynamic"}, "case": ctx}}));
        }
    };
    let result = match result {
        Err(p) => {
            v("typed-call-panics", format!("the typed call panicked: {p}"));
            return;
        }
        Ok(r) => r,
    };
    let log = h.log.lock().unwrap().clone();
    let request_intact = !matches!(fault, Fault::ReqTruncate | Fault::ReqGarbage | Fault::ReqTrailing);
    if request_intact {
        if log.len() != 1 || log[0].0 != case.svc || log[0].1 != case.method || log[0].2 != *msg {
            v("wrong-handler", format!("expected exactly one invocation of handler {}::{} with the sent message, the handlers saw {:?} (route used: {:?})", case.svc, case.method, log, routes));
            return;
        }
    } else if !log.is_empty() && log[0].2 == *msg {
        v("wrong-handler", "a damaged request payload was delivered to the handler as the original message".to_string());
    }
    let handler_ok = matches!(outcome, Outcome::Ok);
    let response_intact = !matches!(fault, Fault::RespTruncate | Fault::RespGarbage | Fault::RespEmpty | Fault::RespStatus(_) | Fault::HandlerRawGarbage | Fault::RespTrailing);
    let class;
    match (&result, request_intact, handler_ok, response_intact) {
        (Ok(r), true, true, true) => {
            class = "ok";
            if *r.body() != reply_for(case.svc, case.method, msg) {
                v("wrong-reply", format!("the caller got {:?}", r.body()));
            }
            if r.headers().get("h-set").map(|s| s.as_str()) != Some("by-handler") {
                v("wrong-reply", "a header set by the handler did not reach the caller".to_string());
            }
        }
        (Ok(r), _, _, _) => {
            class = "bad-ok";
            v("error-surfaced-as-success", format!("the call must fail but returned Ok({:?})", r.body()));
        }
        (Err(s), true, false, true) => {
            class = "handler-error";
            if let Outcome::Err { code, message, headers } = outcome {
                if s.status().to_u16() != *code {
                    v("status-lost", format!("handler returned status {code}, caller sees {:?}", s.status()));
                }
                let got_msg = s.headers().get("status-message").cloned();
                if got_msg != *message {
                    v("status-lost", format!("handler's message {message:?} arrived as {got_msg:?}"));
                }
                for (k, val) in headers {
                    if s.headers().get(k) != Some(val) {
                        v("status-lost", format!("handler's header {k}={val} arrived as {:?}", s.headers().get(k)));
                    }
                }
            }
        }
        (Err(s), _, _, _) => {
            class = "fault-error";
            if let Fault::RespStatus(c) = fault {
                if s.status().to_u16() != c {
                    v("status-lost", format!("response status {c} arrived as {:?}", s.status()));
                }
            }
            if request_intact && handler_ok && response_intact {
                v("typed-call-fails", format!("nothing was damaged but the call failed: {:?} {:?}", s.status(), s.headers()));
            }
        }
    }
    let _ = case.raw;
    *out.classes.entry(format!("dynamic:{class}")).or_default() += 1;
}

macro_rules! run_service {
    ($out:expr, $svc:expr, $server:path, $client:path, [ $( ($m:ident, $raw:expr) ),* ]) => {{
        let msgs = vec![Msg { a: 0, s: String::new() }, Msg { a: 7, s: "hello".into() }, Msg { a: u32::MAX, s: "é\0x".repeat(50) }];
        let outcomes = {
            let mut v = vec![Outcome::Ok];
            for code in [400u16, 404, 408, 429, 500, 505, 520] {
                for message in [None, Some("went wrong: é".to_string())] {
                    for headers in [vec![], vec![("x-a".to_string(), "1".to_string()), ("x-b".to_string(), "".to_string())]] {
                        v.push(Outcome::Err { code, message: message.clone(), headers });
                    }
                }
            }
            v
        };
        let mut own_routes: std::collections::BTreeSet<String> = Default::default();
        let faults = [Fault::None, Fault::ReqTruncate, Fault::ReqGarbage, Fault::RespTruncate, Fault::RespGarbage, Fault::RespEmpty, Fault::RespStatus(404), Fault::RespStatus(520), Fault::HandlerRawGarbage, Fault::ReqTrailing, Fault::RespTrailing];
        $(
        for msg in &msgs {
            for outcome in &outcomes {
                for fault in faults {
                  for prerouted in [false, true] {
                    if prerouted && fault != Fault::None {
                        continue;
                    }
                    if fault == Fault::HandlerRawGarbage && !$raw {
                        continue;
                    }
                    if matches!(fault, Fault::ReqTrailing | Fault::RespTrailing) && !is_json($svc, stringify!($m)) {
                        continue;
                    }
                    if !matches!(outcome, Outcome::Ok) && fault != Fault::None {
                        continue;
                    }
                    let h = H { svc: $svc, log: Default::default(), outcome: Arc::new(Mutex::new(outcome.clone())), raw_garbage: Arc::new(Mutex::new(fault == Fault::HandlerRawGarbage)) };
                    let routes = Arc::new(Mutex::new(vec![]));
                    // the other services are mounted too: a call must not end up in a namesake
                    let router = mount_all(&h).add_rpc_service(<$server>::new(h.clone()));
                    let tamper = Tamper { inner: router, fault, routes: routes.clone() };
                    let mut client = <$client>::new(tamper);
                    let m2 = msg.clone();
                    // the message is handed over bare, or wrapped in a Request that already carries
                    // headers and a route of its own (e.g. a relayed inbound request)
                    let r = std::panic::catch_unwind(std::panic::AssertUnwindSafe(|| {
                        if prerouted {
                            client.$m(anemo::Request::new(m2).with_route("/front/submit").with_header("x-relay", "1")).now_or_never().expect("in-process call completes synchronously")
                        } else {
                            client.$m(m2).now_or_never().expect("in-process call completes synchronously")
                        }
                    }))
                    .map_err(|p| p.downcast_ref::<String>().cloned().or_else(|| p.downcast_ref::<&str>().map(|s| s.to_string())).unwrap_or_default());
                    let rs = routes.lock().unwrap().clone();
                    if !prerouted && fault == Fault::None {
                        own_routes.extend(rs.iter().cloned());
                    }
                    judge($out, &Case { svc: $svc, method: stringify!($m), raw: $raw }, msg, outcome, fault, &h, &rs, r);
                  }
                }
            }
        }
        )*
        // the generated server handed requests directly (not behind its router prefix, e.g. given
        // to Network::start as the only service): it serves ITS OWN routes and nothing else -
        // not another service's method of the same name, not its method name under another or
        // no prefix
        {
            let h = H { svc: $svc, log: Default::default(), outcome: Arc::new(Mutex::new(Outcome::Ok)), raw_garbage: Default::default() };
            let mut server = <$server>::new(h.clone());
            for own in &own_routes {
                let name = own.rsplit('/').next().unwrap_or("").to_string();
                let foreign = [format!("/other.Service/{name}"), format!("/{name}"), name.clone(), format!("/x{own}"), format!("{own}/"), format!("/{}x/{name}", $svc)];
                for f in foreign {
                    if own_routes.contains(&f) {
                        continue;
                    }
                    $out.evaluations += 1;
                    let r = std::panic::catch_unwind(std::panic::AssertUnwindSafe(|| server.call(anemo::Request::new(Bytes::from(bincode::serialize(&Msg { a: 1, s: "x".into() }).unwrap())).with_route(f.clone())).now_or_never()));
                    let ctx = format!("[{} server called directly with route {f:?} (its own routes: {own_routes:?})]", $svc);
                    let seen = h.log.lock().unwrap().len();
                    let mut v = |key: &str, m: String| $out.violations.push(json!({"key": key, "message": format!("{ctx} {m}"), "replay": {"unit": {"kind": "dynamic"}, "case": ctx}}));
                    match r {
                        Err(_) => v("typed-call-panics", "the server panicked".to_string()),
                        Ok(None) => v("wrong-handler", "the call did not complete".to_string()),
                        Ok(Some(Ok(resp))) => {
                            if resp.status() != StatusCode::NotFound || seen != 0 {
                                v("wrong-handler", format!("a route that is not one of the service's own was answered {:?} and reached {seen} handler(s); client and server must agree on the routes", resp.status()));
                            }
                        }
                        Ok(Some(Err(e))) => match e {},
                    }
                    h.log.lock().unwrap().clear();
                    *$out.classes.entry("dynamic:foreign-route".into()).or_default() += 1;
                }
            }
        }
    }};
}

/// Handlers of *other* services, mounted next to the one under test (with their own logs so that
/// a misrouted call shows up as a missing invocation plus a NotFound or a wrong reply).
fn mount_all(_h: &H) -> Router {
    let other = |svc: &'static str| H { svc, log: Default::default(), outcome: Arc::new(Mutex::new(Outcome::Ok)), raw_garbage: Default::default() };
    Router::new()
        .add_rpc_service(d4::greeter_server::GreeterServer::new(other("p.Greeter(decoy)")))
        .add_rpc_service(d7::greeter_admin_server::GreeterAdminServer::new(other("GreeterAdmin(decoy)")))
}

fn main() {
    let mut out = Out { evaluations: 0, classes: BTreeMap::new(), violations: vec![] };
    run_service!(&mut out, "S", d0::s_server::SServer<H>, d0::s_client::SClient<_>, [(m, false), (say_hello, false), (m_1, true)]);
    run_service!(&mut out, "p.S", d1::s_server::SServer<H>, d1::s_client::SClient<_>, [(m, false), (say_hello, false), (m_1, true)]);
    run_service!(&mut out, "a.b.Greeter", d2::greeter_server::GreeterServer<H>, d2::greeter_client::GreeterClient<_>, [(m, false), (say_hello, false), (m_1, true)]);
    run_service!(&mut out, "Greeter", d3::greeter_server::GreeterServer<H>, d3::greeter_client::GreeterClient<_>, [(m, true)]);
    run_service!(&mut out, "a.b.S", d5::s_server::SServer<H>, d5::s_client::SClient<_>, [(m, false), (mm, false)]);
    run_unit_messages(&mut out);
    println!("{}", json!({"evaluations": out.evaluations, "classes": out.classes, "violations": out.violations}));
}
