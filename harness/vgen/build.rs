// Generates typed clients and servers for the C17 definition set with the real anemo-build.
use anemo_build::manual::{Method, Service};

fn method(name: &str, route: &str, codec: &str, raw: bool) -> Method {
    Method::builder()
        .name(name)
        .route_name(route)
        .request_type("crate::Msg")
        .response_type("crate::Reply")
        .codec_path(format!("anemo::rpc::codec::{codec}"))
        .server_handler_return_raw_bytes(raw)
        .build()
}

fn three() -> Vec<Method> {
    vec![method("m", "M", "BincodeCodec", false), method("say_hello", "SayHello", "JsonCodec", false), method("m_1", "m_1", "BincodeCodec", true)]
}

fn main() {
    let mut services = vec![];
    for (package, name, methods) in [
        ("", "S", three()),
        ("p", "S", three()),
        ("a.b", "Greeter", three()),
        ("", "Greeter", vec![method("m", "M", "JsonCodec", true)]),
        ("p", "Greeter", vec![]),
        ("a.b", "S", vec![method("m", "M", "BincodeCodec", false), method("mm", "MM", "JsonCodec", false)]),
        // its full name has another service's full name ("Greeter") as a proper prefix
        ("", "GreeterAdmin", vec![method("m", "M", "BincodeCodec", false)]),
    ] {
        let mut b = Service::builder().name(name).package(package);
        for m in methods {
            b = b.method(m);
        }
        services.push(b.build());
    }
    // messages whose encoding is empty: `()` and a unit struct (zero bytes under bincode)
    let unit = |name: &str, route: &str, ty: &str, codec: &str| {
        Method::builder().name(name).route_name(route).request_type(ty).response_type(ty).codec_path(format!("anemo::rpc::codec::{codec}")).build()
    };
    services.push(
        Service::builder()
            .name("Unit")
            .package("u")
            .method(unit("ping", "Ping", "()", "BincodeCodec"))
            .method(unit("ping_json", "PingJson", "()", "JsonCodec"))
            .method(unit("mark", "Mark", "crate::Marker", "BincodeCodec"))
            .build(),
    );
    anemo_build::manual::Builder::new().compile(&services);
    println!("cargo:rerun-if-changed=build.rs");
}
